"""C04: the local simplification passes keep the outer indices of the network.

output-protected -- path-sensitive must-analysis over the passes that take `output_inds`: an index that a pass
consumes on the whole network (the key of the map given to reindex_ / isel_, the element of the list given to flip_)
has to be known *not* to be an output index on every path that reaches the call.
"""
import ast

from ..framework import RuleResult, Finding
from ..model import src_of
from .. import AnalysisError

CORE = "quimb.tensor.tensor_core"
SINKS = {"flip_", "flip", "isel_", "isel", "reindex_", "reindex"}
PARAM = "output_inds"


def _membership(test, sets=(PARAM,)):
    """(name, positive) for `name in output_inds` / `name not in output_inds` (or a local built from output_inds), else None."""
    if isinstance(test, ast.UnaryOp) and isinstance(test.op, ast.Not):
        m = _membership(test.operand, sets)
        return None if m is None else (m[0], not m[1])
    if isinstance(test, ast.Compare) and len(test.ops) == 1 and isinstance(test.left, ast.Name) \
            and isinstance(test.comparators[0], ast.Name) and test.comparators[0].id in sets:
        if isinstance(test.ops[0], ast.In):
            return test.left.id, True
        if isinstance(test.ops[0], ast.NotIn):
            return test.left.id, False
    return None


def _consumed_names(expr):
    """Names of the indices an argument expression hands to the sink (dict keys / sequence elements / the name itself)."""
    if isinstance(expr, ast.Dict):
        return [k for k in expr.keys if k is not None]
    if isinstance(expr, (ast.List, ast.Tuple, ast.Set)):
        return list(expr.elts)
    return [expr]


class _Walker:
    def __init__(self, fnode, net, candidates, sets=(PARAM,)):
        self.sets = sets
        self.net = net
        self.cands = candidates
        self.sites = []  # (call, [(name, safe)])
        self.fnode = fnode

    def safe_expr(self, e, facts):
        """True / False / None (not about a candidate index)."""
        names = [y.id for x in _consumed_names(e) for y in ast.walk(x) if isinstance(y, ast.Name) and not _in_lambda_args(x, y)]
        rel = [n for n in names if n in self.cands]
        if not rel:
            return None
        return all(n in facts for n in rel)

    def assign(self, tgt, val, facts):
        if isinstance(tgt, ast.Name):
            s = self.safe_expr(val, facts)
            facts.discard(tgt.id)
            if s is not None:
                self.cands.add(tgt.id)
                if s:
                    facts.add(tgt.id)
        elif isinstance(tgt, (ast.Tuple, ast.List)):
            if isinstance(val, (ast.Tuple, ast.List)) and len(val.elts) == len(tgt.elts):
                # simultaneous: judge every right side with the facts before the statement
                before = set(facts)
                res = []
                for t, v in zip(tgt.elts, val.elts):
                    f2 = set(before)
                    self.assign(t, v, f2)
                    res.append((t, f2))
                for t, f2 in res:
                    if isinstance(t, ast.Name):
                        facts.discard(t.id)
                        if t.id in f2:
                            facts.add(t.id)
            else:
                for t in tgt.elts:
                    if isinstance(t, ast.Name):
                        facts.discard(t.id)
                    elif isinstance(t, ast.Starred) and isinstance(t.value, ast.Name):
                        facts.discard(t.value.id)

    def calls(self, node, facts):
        for c in ast.walk(node):
            if isinstance(c, ast.Call) and isinstance(c.func, ast.Attribute) and c.func.attr in SINKS \
                    and isinstance(c.func.value, ast.Name) and c.func.value.id == self.net and c.args:
                s = self.safe_expr(c.args[0], facts)
                if s is not None:
                    self.sites.append((c, s))

    def run(self, stmts, facts):
        facts = set(facts)
        for s in stmts:
            if isinstance(s, (ast.Continue, ast.Break, ast.Return, ast.Raise)):
                if isinstance(s, ast.Return) and s.value is not None:
                    self.calls(s.value, facts)
                return None
            if isinstance(s, ast.If):
                m = _membership(s.test, self.sets)
                ft, ff = set(facts), set(facts)
                if m is not None:
                    (ff if m[1] else ft).add(m[0])
                else:
                    self.calls(s.test, facts)
                a = self.run(s.body, ft)
                b = self.run(s.orelse, ff)
                if a is None and b is None:
                    return None
                facts = b if a is None else a if b is None else (a & b)
            elif isinstance(s, (ast.For, ast.While)):
                if isinstance(s, ast.For):
                    self.assign(s.target, ast.Constant(value=None), facts)
                a = self.run(s.body, facts)
                facts = facts if a is None else (facts & a)
                b = self.run(s.orelse, facts)
                facts = facts if b is None else b
            elif isinstance(s, ast.With):
                a = self.run(s.body, facts)
                if a is None:
                    return None
                facts = a
            elif isinstance(s, ast.Try):
                a = self.run(s.body, facts)
                outs = [a] + [self.run(h.body, facts) for h in s.handlers]
                outs = [o for o in outs if o is not None]
                if not outs:
                    return None
                f = outs[0]
                for o in outs[1:]:
                    f = f & o
                facts = f
            elif isinstance(s, ast.Assign):
                self.calls(s.value, facts)
                for t in s.targets:
                    self.assign(t, s.value, facts)
            elif isinstance(s, ast.AugAssign):
                self.calls(s.value, facts)
                if isinstance(s.target, ast.Name):
                    facts.discard(s.target.id)
            elif isinstance(s, (ast.FunctionDef, ast.ClassDef, ast.Import, ast.ImportFrom, ast.Pass, ast.Global, ast.Nonlocal)):
                continue
            else:
                self.calls(s, facts)
        return facts


def _in_lambda_args(root, name_node):
    for lam in ast.walk(root):
        if isinstance(lam, ast.Lambda):
            bound = {a.arg for a in lam.args.args}
            if name_node.id in bound and any(y is name_node for y in ast.walk(lam.body)):
                return True
    return False


def rule_output_protected(ctx):
    r = RuleResult(
        "output-protected",
        "must-analysis over the simplification passes that take `output_inds`: an index consumed on the working network "
        "(key of the map given to reindex_/isel_, element of the list given to flip_) is, on every path to the call, known "
        "not to be an output index (else arm of `ix in output_inds`, or fall-through after such a test exits) — otherwise the "
        "pass changes the tensor the network denotes",
    )
    n = 0
    mod = ctx.prog.module(CORE)
    for f in mod.all_functions:
        if f.is_alias or isinstance(f.node, ast.Lambda) or f.parent is not None or PARAM not in f.params:
            continue
        # the parameter, and locals built from it alone (`oix = set(output_inds)`)
        sets = {PARAM}
        for a in ast.walk(f.node):
            if isinstance(a, ast.Assign) and len(a.targets) == 1 and isinstance(a.targets[0], ast.Name) and isinstance(a.value, ast.Call) \
                    and isinstance(a.value.func, ast.Name) and a.value.func.id in ("set", "frozenset", "tuple", "list", "oset") \
                    and len(a.value.args) == 1 and isinstance(a.value.args[0], ast.Name) and a.value.args[0].id == PARAM:
                sets.add(a.targets[0].id)
        sets = tuple(sorted(sets))
        tests = [m for x in ast.walk(f.node) if isinstance(x, ast.If) for m in [_membership(x.test, sets)] if m is not None]
        if not tests:
            continue
        rets = [x.value.id for x in ast.walk(f.node) if isinstance(x, ast.Return) and isinstance(x.value, ast.Name)]
        if not rets:
            continue
        net = rets[-1]
        w = _Walker(f.node, net, {m[0] for m in tests}, sets)
        w.run(f.node.body, set())
        for call, safe in w.sites:
            n += 1
            q = f"{f.qualname}:{call.func.attr}"
            if safe:
                r.ok(q, sample={"pass": f.qualname, "consumes": src_of(call)[:50], "not an output index": "on every path"})
            else:
                r.bad(Finding("output-protected", f.qualname,
                              f"`{src_of(call)[:60]}` can consume an index that no test on this path excludes from output_inds: "
                              "an outer index of the network is rewritten and the pass changes the tensor it denotes",
                              where=f"{mod.relpath}:{call.lineno}", operand=call.func.attr))
    r.floor(n, 3, "index-consuming calls in output-aware passes")
    return r
