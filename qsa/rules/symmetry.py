"""C19: every symmetry dispatcher is total, agrees with its siblings and calls
the kernel of its own symmetry with a sector of the right arity."""

import ast

from ..framework import RuleResult, Finding
from ..model import dotted, src_of, const_value, FuncInfo
from .. import AnalysisError

CC = "quimb.operator.configcore"
HS = "quimb.operator.hilbertspace"
SUFFIX = {0: ("_nosymm",), 1: ("_z2",), 2: ("_u1", "_u1_pascal"), 3: ("_u1u1", "_u1u1_pascal")}
ARITY = {0: 1, 1: 2, 2: 2, 3: 4}
STRINGS = {None: 0, "Z2": 1, "U1": 2, "U1U1": 3}


def _code_chain(f, param="symmetry"):
    """code -> branch body for `if symmetry == c ... elif ... else raise`."""
    for st in f.node.body:
        if isinstance(st, ast.If) and isinstance(st.test, ast.Compare) and src_of(st.test.left) == param:
            out = {}
            cur = st
            ends_raise = False
            while True:
                c = const_value(cur.test.comparators[0], "x")
                out[c] = cur.body
                if len(cur.orelse) == 1 and isinstance(cur.orelse[0], ast.If) and isinstance(cur.orelse[0].test, ast.Compare) and src_of(cur.orelse[0].test.left) == param:
                    cur = cur.orelse[0]
                    continue
                ends_raise = any(isinstance(s, ast.Raise) for s in cur.orelse)
                break
            return out, ends_raise
    return None, False


def rule_symmetry_dispatch(ctx):
    r = RuleResult(
        "symmetry-total",
        "every numeric-code dispatcher of quimb/operator/configcore.py handles exactly the codes {0,1,2,3} and ends "
        "in raise; the branch for code c unpacks a sector of the arity of that symmetry (1,2,2,4), calls a kernel "
        "whose name carries that symmetry's suffix (_nosymm/_z2/_u1/_u1u1) and passes the unpacked sector "
        "components in order; sibling dispatchers agree; both directions of the rank/config kernel and both the "
        "COO and matvec kernels exist for every symmetry",
    )
    m = ctx.prog.module(CC)
    disps = []
    for f in m.functions.values():
        if "symmetry" in f.params and "sector" in f.params:
            chain, ends_raise = _code_chain(f)
            if chain:
                disps.append((f, chain, ends_raise))
    r.floor(len(disps), 4, "numeric symmetry dispatchers in configcore.py")
    for f, chain, ends_raise in disps:
        where = f"{m.relpath}:{f.lineno}"
        if set(chain) != {0, 1, 2, 3}:
            r.bad(Finding("symmetry-total", f.qualname, f"handles codes {sorted(map(str, chain))}, expected 0,1,2,3", where=where, operand="codes"))
            continue
        if not ends_raise:
            r.bad(Finding("symmetry-total", f.qualname, "an unknown symmetry code is not rejected", where=where, operand="else"))
        for code, body in sorted(chain.items()):
            construct = f"{f.qualname}[{code}]"
            # sector unpacking
            unpack = None
            for s in body:
                if isinstance(s, ast.Assign) and src_of(s.value) == "sector" and isinstance(s.targets[0], (ast.Tuple, ast.List)):
                    unpack = [src_of(e) for e in s.targets[0].elts]
            problems = []
            if unpack is None or len(unpack) != ARITY[code]:
                problems.append(f"sector is unpacked into {unpack}, expected {ARITY[code]} components")
            # the kernel call
            calls = [c for s in body for c in ast.walk(s) if isinstance(c, ast.Call) and isinstance(c.func, ast.Name) and c.func.id in m.functions and c.func.id != "build_pascal_table"]
            if len(calls) != 1:
                problems.append(f"expected exactly one kernel call, found {[c.func.id for c in calls]}")
            else:
                k = calls[0]
                if not k.func.id.endswith(SUFFIX[code]):
                    problems.append(f"calls `{k.func.id}` whose name does not carry the suffix {SUFFIX[code]} of symmetry code {code}")
                else:
                    other = [sfx for c2, sfxs in SUFFIX.items() if c2 != code for sfx in sfxs if k.func.id.endswith(sfx) and not any(k.func.id.endswith(own) and len(own) > len(sfx) for own in SUFFIX[code])]
                    if other and not any(k.func.id.endswith(own) for own in SUFFIX[code] if all(len(own) >= len(o) for o in other)):
                        problems.append(f"kernel `{k.func.id}` belongs to another symmetry")
                if unpack is not None:
                    args = [src_of(a) for a in k.args]
                    # the unpacked components must appear in the call in the same order
                    pos = [args.index(u) for u in unpack if u in args]
                    missing = [u for u in unpack if u not in args]
                    if code == 0:
                        missing = []  # the single `n` is unused by the nosymm rank kernels
                    if missing:
                        problems.append(f"sector components {missing} are not passed to `{k.func.id}`")
                    elif pos != sorted(pos):
                        problems.append(f"sector components are passed out of order: {args}")
                    callee = m.functions.get(k.func.id)
                    if callee is not None and len(k.args) + len(k.keywords) > len(callee.posparams):
                        problems.append(f"`{k.func.id}` is called with more arguments than it takes")
            if problems:
                for p_ in problems:
                    r.bad(Finding("symmetry-total", f.qualname, f"code {code}: {p_}", where=where, operand=f"{code}:{p_[:25]}"))
            else:
                r.ok(construct, sample={"dispatcher": f.qualname, "code": code, "sector": unpack, "kernel": calls[0].func.id})
    # kernel existence: both directions and both builders for each symmetry
    for stem, sfxs in (("rank_to_flatconfig", ("_nosymm", "_z2", "_u1_pascal", "_u1u1_pascal")),
                       ("flatconfig_to_rank", ("_nosymm", "_z2", "_u1_pascal", "_u1u1_pascal")),
                       ("build_coo_numba_core", ("_nosymm", "_z2", "_u1", "_u1u1")),
                       ("matvec", ("_nosymm", "_z2", "_u1", "_u1u1"))):
        for sfx in sfxs:
            name = stem + sfx
            if name in m.functions:
                r.ok(f"kernel {name}", nontrivial=False)
            else:
                r.bad(Finding("symmetry-total", "configcore", f"kernel `{name}` is missing", where=m.relpath, operand=name))
    return r


def rule_symmetry_strings(ctx):
    r = RuleResult(
        "symmetry-strings",
        "the string vocabulary {None, 'Z2', 'U1', 'U1U1'} is translated to the numeric codes {0,1,2,3} injectively "
        "and onto by the HilbertSpace translation chain, and every string dispatcher of hilbertspace.py handles "
        "exactly that vocabulary and ends in raise",
    )
    m = ctx.prog.module(HS)
    # translation: find a function/method mapping strings to codes via if-chain returning constants or a dict literal
    found = False
    for f in m.all_functions:
        if isinstance(f.node, ast.Lambda):
            continue
        for n in ast.walk(f.node):
            if isinstance(n, ast.Dict):
                d = {const_value(k, "x"): const_value(v, "x") for k, v in zip(n.keys, n.values)}
                if set(d.keys()) == set(STRINGS) and all(isinstance(v, int) for v in d.values()):
                    found = True
                    if d == STRINGS:
                        r.ok(f"{f.qualname}[string->code table]", sample={"table": {str(k): v for k, v in d.items()}})
                    else:
                        r.bad(Finding("symmetry-strings", f.qualname, f"string->code table is {d}, expected {STRINGS}", where=f"{m.relpath}:{f.lineno}"))
    for name, node in m.assigns.items():
        if isinstance(node, ast.Dict):
            d = {const_value(k, "x"): const_value(v, "x") for k, v in zip(node.keys, node.values)}
            if set(d.keys()) == set(STRINGS):
                found = True
                if d == STRINGS:
                    r.ok(f"{name}[string->code table]", sample={"table": {str(k): v for k, v in d.items()}})
                else:
                    r.bad(Finding("symmetry-strings", name, f"string->code table is {d}, expected {STRINGS}", where=m.relpath))
    # if-chain translators: branch on string, assign/return the code
    for f in m.all_functions:
        if isinstance(f.node, ast.Lambda):
            continue
        mapping = {}
        for n in ast.walk(f.node):
            if isinstance(n, ast.If) and isinstance(n.test, ast.Compare) and "symmetry" in src_of(n.test.left):
                key = const_value(n.test.comparators[0], "x")
                if isinstance(n.test.ops[0], ast.Is):
                    key = None
                for s in n.body:
                    for x in ast.walk(s):
                        if isinstance(x, ast.Assign) and isinstance(x.value, ast.Constant) and isinstance(x.value.value, int) and not isinstance(x.value.value, bool) and "symm" in src_of(x.targets[0]):
                            mapping[key] = x.value.value
                        if isinstance(x, ast.Return) and isinstance(x.value, ast.Constant) and isinstance(x.value.value, int) and not isinstance(x.value.value, bool):
                            mapping[key] = x.value.value
        if len(mapping) >= 3 and set(mapping.values()) <= {0, 1, 2, 3}:
            found = True
            bad = {k: v for k, v in mapping.items() if STRINGS.get(k, "x") != v}
            if bad or len(set(mapping.values())) != len(mapping):
                r.bad(Finding("symmetry-strings", f.qualname, f"string->code chain maps {mapping}, expected {STRINGS}", where=f"{m.relpath}:{f.lineno}"))
            else:
                r.ok(f"{f.qualname}[string->code chain]", sample={"chain": {str(k): v for k, v in mapping.items()}})
    if not found:
        r.skip("string->code translation", "no literal table / chain recognised")
    # string dispatchers: chains over self._symmetry / symmetry with string literals
    n = 0
    for f in m.all_functions:
        if isinstance(f.node, ast.Lambda) or f.parent is not None:
            continue
        lits = set()
        chain_nodes = []
        for x in ast.walk(f.node):
            if isinstance(x, ast.If) and isinstance(x.test, ast.Compare) and src_of(x.test.left) in ("symmetry", "self._symmetry", "self.symmetry") and isinstance(x.test.ops[0], (ast.Eq, ast.Is)):
                v = const_value(x.test.comparators[0], "x")
                lits.add(v)
                chain_nodes.append(x)
        strs = {l for l in lits if isinstance(l, str)}
        if len(strs) < 3:
            continue
        n += 1
        where = f"{m.relpath}:{f.lineno}"
        unknown = strs - {"Z2", "U1", "U1U1"}
        missing = {"Z2", "U1", "U1U1"} - strs
        if unknown or missing:
            r.bad(Finding("symmetry-strings", f.qualname, f"handles {sorted(strs)}: unknown {sorted(unknown)}, missing {sorted(missing)}", where=where, operand="vocabulary"))
        else:
            r.ok(f"{f.qualname}[vocabulary]", sample={"dispatcher": f.qualname, "handles": sorted(strs) + (["None"] if None in lits else [])})
    r.floor(n, 3, "string symmetry dispatchers in hilbertspace.py")
    return r
