"""C11: local Hamiltonian caches, product-formula coefficients, time
book-keeping."""

import ast

from ..framework import RuleResult, Finding
from ..consteval import ConstEnv, UNKNOWN
from ..model import dotted, src_of, const_value
from .. import AnalysisError

TEBDAG = "quimb.tensor.tnag.tebd"
TEBD1D = "quimb.tensor.tn1d.tebd"


def _is_id_key(sl, fnode):
    """the subscript is keyed by an expression containing id(...) — directly or through a local bound to one"""
    def has_id(e):
        return any(isinstance(c, ast.Call) and dotted(c.func) == "id" for c in ast.walk(e))
    if has_id(sl):
        return True
    if isinstance(sl, ast.Name):
        return any(isinstance(a, ast.Assign) and any(isinstance(t, ast.Name) and t.id == sl.id for t in a.targets) and has_id(a.value) for a in ast.walk(fnode))
    return False


def _id_keyed_caches(cls):
    """Methods whose cache key contains id(<param>) and whose stored value
    does not retain that parameter: name -> (cache slot, id-params)."""
    out = {}
    for name, f in cls.methods.items():
        if f.is_alias or isinstance(f.node, ast.Lambda):
            continue
        idparams = set()
        for n in ast.walk(f.node):
            if isinstance(n, ast.Call) and dotted(n.func) == "id" and n.args and isinstance(n.args[0], ast.Name) and n.args[0].id in f.params:
                idparams.add(n.args[0].id)
        if not idparams:
            continue
        # the value stored:  cache[key] = V
        retained = False
        stores = 0
        for n in ast.walk(f.node):
            if isinstance(n, ast.Assign) and isinstance(n.targets[0], ast.Subscript) and _is_id_key(n.targets[0].slice, f.node):
                stores += 1
                v = n.value
                if isinstance(v, ast.Tuple) and any(isinstance(e, ast.Name) and e.id in idparams for e in v.elts):
                    retained = True
        if stores and not retained:
            slot = None
            for n in ast.walk(f.node):
                if isinstance(n, ast.Subscript) and isinstance(n.value, ast.Attribute) and n.value.attr == "_op_cache":
                    slot = const_value(n.slice, None)
            out[name] = (slot, idparams)
    return out


def _derives_from_terms(expr, method_returns_terms):
    """Does the argument expression read mutable state self.terms ?"""
    for n in ast.walk(expr):
        if isinstance(n, ast.Attribute) and n.attr == "terms" and isinstance(n.value, ast.Name) and n.value.id == "self":
            return True
        if isinstance(n, ast.Call) and isinstance(n.func, ast.Attribute) and n.func.attr in method_returns_terms:
            return True
    return False


def rule_id_cache(ctx):
    r = RuleResult(
        "id-cache-coherence",
        "a cache keyed by id(obj) that does not retain obj is only sound while obj stays alive: for every such "
        "cache of LocalHamGen that is consulted outside __init__ with objects read from self.terms, every "
        "method other than __init__ that rebinds entries of self.terms must clear the cache",
    )
    cls = ctx.prog.cls(TEBDAG, "LocalHamGen")
    caches = _id_keyed_caches(cls)
    r.floor(len(caches), 5, "id()-keyed caches in LocalHamGen")
    # methods returning entries of self.terms
    returns_terms = set()
    for name, f in cls.methods.items():
        if f.is_alias or isinstance(f.node, ast.Lambda):
            continue
        ldefs = {}
        for n in ast.walk(f.node):
            if isinstance(n, ast.Assign):
                for t in n.targets:
                    if isinstance(t, ast.Name):
                        ldefs.setdefault(t.id, []).append(n.value)
        for n in ast.walk(f.node):
            if isinstance(n, ast.Return) and n.value is not None:
                # the returned expression, followed through the locals it is built from
                todo, seen, txt = [n.value], set(), []
                while todo:
                    e = todo.pop()
                    txt.append(src_of(e))
                    for y in ast.walk(e):
                        if isinstance(y, ast.Name) and y.id in ldefs and y.id not in seen:
                            seen.add(y.id)
                            todo.extend(ldefs[y.id])
                if any("self.terms[" in t for t in txt):
                    returns_terms.add(name)
    # which caches are consulted with state-derived keys outside __init__
    live = {}
    classes = [cls] + cls.all_subclasses()
    for c in classes:
        for name, f in c.methods.items():
            if f.is_alias or f.cls is not c or isinstance(f.node, ast.Lambda) or name == "__init__" or name in caches:
                continue
            for n in ast.walk(f.node):
                if isinstance(n, ast.Call) and isinstance(n.func, ast.Attribute) and n.func.attr in caches and isinstance(n.func.value, ast.Name) and n.func.value.id == "self":
                    if any(_derives_from_terms(a, returns_terms) for a in n.args):
                        live.setdefault(n.func.attr, []).append(f"{c.name}.{name}")
    for cname in caches:
        if cname not in live:
            r.ok(f"LocalHamGen.{cname}", sample={"cache": cname, "consulted": "only from __init__ (arguments alive) or with non-state keys"}, nontrivial=False)
    # writers of self.terms outside __init__
    for c in classes:
        for name, f in c.methods.items():
            if f.is_alias or f.cls is not c or isinstance(f.node, ast.Lambda) or name == "__init__":
                continue
            writes = []
            for n in ast.walk(f.node):
                if isinstance(n, (ast.Assign, ast.AugAssign)):
                    ts = n.targets if isinstance(n, ast.Assign) else [n.target]
                    for t in ts:
                        if isinstance(t, ast.Subscript) and src_of(t.value) == "self.terms":
                            writes.append(n)
                        if isinstance(t, ast.Attribute) and t.attr == "terms" and src_of(t.value) == "self":
                            writes.append(n)
                if isinstance(n, ast.Call) and isinstance(n.func, ast.Attribute) and n.func.attr in ("pop", "update", "clear", "setdefault", "popitem") and src_of(n.func.value) == "self.terms":
                    writes.append(n)
            if not writes:
                continue
            clears = any(
                isinstance(n, ast.Call) and isinstance(n.func, ast.Attribute) and n.func.attr == "clear" and "_op_cache" in src_of(n.func.value)
                for n in ast.walk(f.node)
            ) or any(
                isinstance(n, ast.Assign) and any(isinstance(t, ast.Attribute) and t.attr == "_op_cache" for t in n.targets)
                for n in ast.walk(f.node)
            )
            construct = f"{c.name}.{name}"
            for cname, users in sorted(live.items()):
                if clears:
                    r.ok(f"{construct}[{cname}]", sample={"writer": construct, "cache": cname, "action": "cleared"})
                else:
                    r.bad(Finding(
                        "id-cache-coherence", construct,
                        f"rebinds entries of self.terms but leaves the id()-keyed cache `{cname}` (slot {caches[cname][0]!r}, "
                        f"consulted by {users[0]}) intact: a freed term's id can be reused and a stale entry returned",
                        where=f"{f.module.relpath}:{f.lineno}", operand=cname,
                    ))
    if not live:
        raise AnalysisError("no id()-keyed cache is consulted with state-derived keys any more (rule needs re-pointing)")
    # the objects used as id() keys must be *retained* somewhere for as long as the cache entry lives: an entry of
    # self.terms, the stored result of another cache of the class, or the caller's own argument.  A freshly computed
    # temporary is freed when the call returns and CPython reuses its address: the next temporary hits the stale entry.
    def retained(c, f, e, depth=0):
        """'yes' / 'no: <why>' for the object denoted by expression e inside method f of class c."""
        if depth > 5:
            return "no: provenance too deep"
        if isinstance(e, ast.Subscript) and isinstance(e.value, ast.Attribute) and e.value.attr == "terms":
            return "yes"
        if isinstance(e, ast.Subscript) and isinstance(e.value, ast.Name):
            # an entry of one of the class's own cache dicts (a local bound to self._op_cache[...]) is retained by it
            cdefs = [a.value for a in ast.walk(f.node) if isinstance(a, ast.Assign) and any(isinstance(t, ast.Name) and t.id == e.value.id for t in a.targets)]
            if cdefs and all(isinstance(d, ast.Subscript) and isinstance(d.value, ast.Attribute) and isinstance(d.value.value, ast.Name) and d.value.value.id == "self" for d in cdefs):
                return "yes"
            return retained(c, f, e.value, depth + 1)
        if isinstance(e, ast.Name):
            if e.id in f.params:
                return "yes"  # the caller's object (checked at the call sites of f inside the class)
            defs = [a.value for a in ast.walk(f.node) if isinstance(a, ast.Assign) and any(isinstance(t, ast.Name) and t.id == e.id for t in a.targets)]
            loops = [a.iter for a in ast.walk(f.node) if isinstance(a, (ast.For, ast.comprehension)) and any(isinstance(t, ast.Name) and t.id == e.id for t in ast.walk(a.target))]
            if not defs and loops:
                return "yes" if all("terms" in src_of(it) for it in loops) else f"no: `{e.id}` iterates `{src_of(loops[0])[:30]}`"
            if not defs:
                return f"no: `{e.id}` has no definition"
            res = [retained(c, f, d, depth + 1) for d in defs]
            bad = [x for x in res if x != "yes"]
            return bad[0] if bad else "yes"
        if isinstance(e, ast.Call) and isinstance(e.func, ast.Attribute) and isinstance(e.func.value, ast.Name) and e.func.value.id == "self":
            name = e.func.attr
            if name in caches:
                return "yes"  # stored in that cache
            g = c.find(name)
            if g is None or g.is_alias:
                return f"no: self.{name}(...) not resolved"
            rets = [x.value for x in ast.walk(g.node) if isinstance(x, ast.Return) and x.value is not None]
            if not rets:
                return f"no: self.{name}(...) returns nothing"
            res = [retained(c, g, x, depth + 1) for x in rets]
            bad = [x for x in res if x != "yes"]
            return bad[0] if bad else "yes"
        if isinstance(e, ast.IfExp):
            res = [retained(c, f, e.body, depth + 1), retained(c, f, e.orelse, depth + 1)]
            bad = [x for x in res if x != "yes"]
            return bad[0] if bad else "yes"
        return f"no: `{src_of(e)[:40]}` is a freshly computed object"

    nkeys = 0
    for c in classes:
        for name, f in c.methods.items():
            if f.is_alias or f.cls is not c or isinstance(f.node, ast.Lambda) or name == "__init__":
                continue
            for n in ast.walk(f.node):
                if isinstance(n, ast.Call) and isinstance(n.func, ast.Attribute) and n.func.attr in caches and isinstance(n.func.value, ast.Name) and n.func.value.id == "self":
                    callee = c.find(n.func.attr)
                    pos = [p_ for p_ in callee.posparams if p_ != "self"]
                    for k, a in enumerate(n.args):
                        if k < len(pos) and pos[k] in caches[n.func.attr][1]:
                            nkeys += 1
                            verdict = retained(c, f, a)
                            construct = f"{c.name}.{name}->{n.func.attr}[{pos[k]}]"
                            if verdict == "yes":
                                r.ok(construct, sample={"caller": f"{c.name}.{name}", "cache": n.func.attr, "key object": src_of(a)[:40], "retained": True}, nontrivial=(name not in caches))
                            else:
                                r.bad(Finding(
                                    "id-cache-coherence", f"{c.name}.{name}",
                                    f"`{src_of(n)[:60]}` keys the cache `{n.func.attr}` by id() of an object that nothing retains ({verdict[4:]}): once it is freed its "
                                    "address is reused and a later, different object is served the stale entry",
                                    where=f"{f.module.relpath}:{n.lineno}", operand=f"{n.func.attr}:temporary"))
    r.floor(nkeys, 1, "id()-keyed cache consultations outside __init__")
    return r


# ------------------------------------------------------------ trotter coeffs
# Abstract interpretation of the schedule-building expressions with a *symbolic* number of layers n.
# A schedule is abstracted as a list of items
#     ("one", e, w)            the single pair (e, w)
#     ("run", lo, hi, d, w)    the pairs (k, w) for k in range(lo, hi), ascending (d = +1) or descending (d = -1)
# where e, lo, hi are linear forms a*n + b (kept as (a, b)) and w is a folded constant.

def _lin(e, nname):
    """linear form (a, b) of an index expression in the symbol nname; None outside the fragment."""
    if isinstance(e, ast.Constant) and isinstance(e.value, int):
        return (0, e.value)
    if isinstance(e, ast.Name) and e.id == nname:
        return (1, 0)
    if isinstance(e, ast.BinOp) and isinstance(e.op, (ast.Add, ast.Sub)):
        l, r_ = _lin(e.left, nname), _lin(e.right, nname)
        if l is None or r_ is None:
            return None
        sg = 1 if isinstance(e.op, ast.Add) else -1
        return (l[0] + sg * r_[0], l[1] + sg * r_[1])
    return None


def _fold_const(e, consts):
    """fold an arithmetic expression over numeric literals and already folded names; None if not constant."""
    try:
        if isinstance(e, ast.Constant) and isinstance(e.value, (int, float)):
            return float(e.value)
        if isinstance(e, ast.Name):
            return consts.get(e.id)
        if isinstance(e, ast.UnaryOp) and isinstance(e.op, ast.USub):
            v = _fold_const(e.operand, consts)
            return None if v is None else -v
        if isinstance(e, ast.BinOp):
            a, b = _fold_const(e.left, consts), _fold_const(e.right, consts)
            if a is None or b is None:
                return None
            return {ast.Add: a + b, ast.Sub: a - b, ast.Mult: a * b, ast.Div: a / b, ast.Pow: a ** b}.get(type(e.op))
    except (ZeroDivisionError, OverflowError, ValueError):
        return None
    return None


def _range_of(it, nname):
    """(lo, hi, direction) of `range(E)`, `range(A, B)` or `reversed(range(...))`."""
    d = 1
    if isinstance(it, ast.Call) and isinstance(it.func, ast.Name) and it.func.id == "reversed" and len(it.args) == 1:
        d, it = -1, it.args[0]
    if isinstance(it, ast.Call) and isinstance(it.func, ast.Name) and it.func.id == "range" and 1 <= len(it.args) <= 2 and not it.keywords:
        lo = (0, 0) if len(it.args) == 1 else _lin(it.args[0], nname)
        hi = _lin(it.args[-1], nname)
        if lo is not None and hi is not None:
            return lo, hi, d
    return None


def _abstract_schedule(expr, nname, consts, schedules):
    """abstract value of a schedule-building expression; raises AnalysisError outside the fragment."""
    def pair_item(elt, loopvar, rng, scale=1.0):
        if not (isinstance(elt, ast.Tuple) and len(elt.elts) == 2):
            raise AnalysisError(f"schedule element `{src_of(elt)}` is not a (layer, fraction) pair")
        w = _fold_const(elt.elts[1], consts)
        if w is None:
            raise AnalysisError(f"fraction `{src_of(elt.elts[1])}` is not a constant")
        if rng is not None and isinstance(elt.elts[0], ast.Name) and elt.elts[0].id == loopvar:
            return ("run", rng[0], rng[1], rng[2], w * scale)
        e = _lin(elt.elts[0], nname)
        if e is None or rng is not None:
            raise AnalysisError(f"layer expression `{src_of(elt.elts[0])}` not understood")
        return ("one", e, w * scale)

    def of_comp(c):
        if len(c.generators) == 1 and not c.generators[0].ifs and isinstance(c.generators[0].target, ast.Name):
            rng = _range_of(c.generators[0].iter, nname)
            if rng is None:
                raise AnalysisError(f"iteration `{src_of(c.generators[0].iter)}` is not a range")
            return [pair_item(c.elt, c.generators[0].target.id, rng)]
        # nested: for f in (w1, ..., wm) for k, frac in <schedule name>  with element (k, frac * f)
        if len(c.generators) == 2 and isinstance(c.generators[0].target, ast.Name) and isinstance(c.generators[0].iter, (ast.Tuple, ast.List)):
            fvar = c.generators[0].target.id
            ws = [_fold_const(x, consts) for x in c.generators[0].iter.elts]
            g2 = c.generators[1]
            if None in ws or not (isinstance(g2.iter, ast.Name) and g2.iter.id in schedules and isinstance(g2.target, ast.Tuple) and len(g2.target.elts) == 2):
                raise AnalysisError(f"nested schedule comprehension `{src_of(c)[:80]}` not understood")
            kvar, frvar = (e.id if isinstance(e, ast.Name) else None for e in g2.target.elts)
            elt = c.elt
            ok = (isinstance(elt, ast.Tuple) and len(elt.elts) == 2 and isinstance(elt.elts[0], ast.Name) and elt.elts[0].id == kvar
                  and isinstance(elt.elts[1], ast.BinOp) and isinstance(elt.elts[1].op, ast.Mult)
                  and {getattr(elt.elts[1].left, "id", None), getattr(elt.elts[1].right, "id", None)} == {frvar, fvar})
            if not ok:
                raise AnalysisError(f"nested schedule element `{src_of(elt)}` is not (layer, fraction * weight)")
            out = []
            for w in ws:
                for it in schedules[g2.iter.id]:
                    out.append(it[:-1] + (it[-1] * w,))
            return out, ws
        raise AnalysisError(f"schedule comprehension `{src_of(c)[:80]}` not understood")

    if isinstance(expr, ast.ListComp):
        res = of_comp(expr)
        return res if isinstance(res, tuple) else (res, None)
    if isinstance(expr, ast.List):
        items = []
        for e in expr.elts:
            if isinstance(e, ast.Starred) and isinstance(e.value, (ast.GeneratorExp, ast.ListComp)):
                res = of_comp(e.value)
                items += res[0] if isinstance(res, tuple) else res
            elif isinstance(e, ast.Tuple):
                items.append(pair_item(e, None, None))
            else:
                raise AnalysisError(f"schedule list element `{src_of(e)[:60]}` not understood")
        return items, None
    raise AnalysisError(f"schedule expression `{src_of(expr)[:80]}` not understood")


def _coverage_problems(items):
    """for symbolic n: case split n = 1 / n >= 2 on the ordering of the end points; sums of weights per layer."""
    problems = []
    for n in (1, 2, 3):  # representatives of the orderings of {0, n-1, n} (n = 1: 0 = n-1 < n; n >= 2: 0 < n-1 < n; 3 guards interior points)
        val = lambda lf: lf[0] * n + lf[1]
        tot = [0.0] * n
        for it in items:
            if it[0] == "one":
                k = val(it[1])
                if not 0 <= k < n:
                    problems.append(f"layer {src_lin(it[1])} is outside range(nlayers)")
                    continue
                tot[k] += it[2]
            else:
                for k in range(val(it[1]), val(it[2])):
                    if not 0 <= k < n:
                        problems.append("a run leaves range(nlayers)")
                        break
                    tot[k] += it[4]
        if any(abs(x - 1.0) > 1e-12 for x in tot):
            problems.append(f"fractions per layer sum to {[round(x, 6) for x in tot]} (ordering case nlayers {'= 1' if n == 1 else '>= 2'})")
    return sorted(set(problems))


def src_lin(lf):
    a, b = lf
    return (f"{a}*n" if a else "") + (f"{b:+d}" if b or not a else "")


def _reverse(items):
    out = []
    for it in reversed(items):
        out.append(it if it[0] == "one" else ("run", it[1], it[2], -it[3], it[4]))
    return out


def _same(a, b):
    if len(a) != len(b):
        return False
    for x, y in zip(a, b):
        if x[:-1] != y[:-1] or abs(x[-1] - y[-1]) > 1e-12:
            return False
    return True


def rule_trotter_coeffs(ctx):
    r = RuleResult(
        "trotter-coeffs",
        "abstract interpretation of trotter_schedule with a symbolic number of layers n (schedules abstracted as lists of "
        "single pairs and ascending / descending runs with linear bounds in n and folded constant fractions): for every "
        "supported order each layer's fractions sum to 1 (finite case split on the ordering of the run end points); order 1 "
        "is one ascending run over range(n); orders 2 and 4 are palindromic (time-symmetric); the order-4 schedule is five "
        "scaled copies of the order-2 one whose folded weights satisfy sum w = 1 and sum w^3 = 0; any other order raises",
    )
    f = ctx.prog.func(TEBDAG, "trotter_schedule")
    if f is None:
        raise AnalysisError("trotter_schedule not found")
    where = f"{f.module.relpath}:{f.lineno}"
    nname = f.node.args.args[0].arg
    branches = {}
    tail_raise = False
    for st in f.node.body:
        if isinstance(st, ast.If) and isinstance(st.test, ast.Compare) and isinstance(st.test.left, ast.Name) and st.test.left.id == "order" and isinstance(st.test.ops[0], ast.Eq):
            branches[const_value(st.test.comparators[0], None)] = st.body
        if isinstance(st, ast.Raise):
            tail_raise = True
    if set(branches) != {1, 2, 4}:
        raise AnalysisError(f"trotter_schedule: orders dispatched are {sorted(branches)}")
    if tail_raise and isinstance(f.node.body[-1], ast.Raise):
        r.ok("trotter_schedule[else]", nontrivial=False)
    else:
        r.bad(Finding("trotter-coeffs", "trotter_schedule", "unsupported orders are not rejected", where=where, operand="else"))
    abstract = {}
    weights4 = None
    for order in (1, 2, 4):
        body = branches[order]
        consts, scheds = {}, {}
        for st in body:
            if isinstance(st, ast.Assign) and isinstance(st.targets[0], ast.Name):
                v = _fold_const(st.value, consts)
                if v is not None:
                    consts[st.targets[0].id] = v
                elif isinstance(st.value, ast.Call) and isinstance(st.value.func, ast.Name) and st.value.func.id == f.name:
                    o = next((const_value(k.value, None) for k in st.value.keywords if k.arg == "order"), const_value(st.value.args[1], None) if len(st.value.args) > 1 else 2)
                    a0 = st.value.args[0] if st.value.args else None
                    if o in abstract and isinstance(a0, ast.Name) and a0.id == nname:
                        scheds[st.targets[0].id] = abstract[o]
                    else:
                        raise AnalysisError(f"trotter_schedule: recursive use `{src_of(st.value)}` not understood")
        rets = [st for st in body if isinstance(st, ast.Return)]
        if not rets:
            raise AnalysisError(f"trotter_schedule: order {order} has no return")
        items, ws = _abstract_schedule(rets[-1].value, nname, consts, scheds)
        abstract[order] = items
        if order == 4:
            weights4 = ws
        problems = _coverage_problems(items)
        if order == 1 and not (len(items) == 1 and items[0][0] == "run" and items[0][1] == (0, 0) and items[0][2] == (1, 0) and items[0][3] == 1):
            problems.append("order 1 is not a single ascending run over range(nlayers)")
        if order >= 2 and not _same(items, _reverse(items)):
            problems.append("schedule is not palindromic (time-symmetric)")
        if order == 4:
            if not weights4 or len(weights4) != 5:
                problems.append("order 4 is not built from five weighted order-2 sub-steps")
            else:
                e1, e3 = abs(sum(weights4) - 1.0), abs(sum(w ** 3 for w in weights4))
                if e1 > 1e-12 or e3 > 1e-12:
                    problems.append(f"sub-step weights {[round(w, 6) for w in weights4]}: |sum - 1| = {e1:.2e}, |sum of cubes| = {e3:.2e} (fourth order needs both to vanish)")
        if problems:
            for pr in problems:
                r.bad(Finding("trotter-coeffs", "trotter_schedule", f"order {order}: {pr}", where=where, operand=str(order)))
        else:
            r.ok(f"trotter_schedule[{order}]", sample={"order": order, "abstract schedule": [
                (it[0], src_lin(it[1]), round(it[2], 6)) if it[0] == "one" else (it[0], src_lin(it[1]), src_lin(it[2]), "asc" if it[3] > 0 else "desc", round(it[4], 6))
                for it in items][:6], **({"weights": weights4} if order == 4 else {})})
    return r


# ---------------------------------------------------------- time bookkeeping
def rule_time_bookkeeping(ctx):
    r = RuleResult(
        "time-bookkeeping",
        "TEBD.step passes its own dt to every sweep and then adds exactly that dt (self._dt when None) to "
        "self.t; sweeps come from trotter_schedule(2, order=order) with the schedule's layer and fraction; "
        "update_to ends, unconditionally, with step(dt=T - self.t, queue=False) so the queue is drained and "
        "the target time reached exactly; sweep scales dt_frac by dt/self._dt and drains a pending sweep "
        "before an unqueued one",
    )
    cls = ctx.prog.cls(TEBD1D, "TEBD")
    step = cls.methods["step"]
    where = f"{step.module.relpath}:{step.lineno}"
    src = " ".join(src_of(step.node).split())
    sweeps = [n for n in ast.walk(step.node) if isinstance(n, ast.Call) and src_of(n.func) == "self.sweep"]
    if not sweeps:
        raise AnalysisError("TEBD.step no longer calls self.sweep")
    # every call of step reaches the sweeps: update_to relies on its final step(queue=False) to drain a pending sweep, so
    # a step that can return early (whatever the reason) leaves the state one queued sweep behind the reported time
    early = [n for n in ast.walk(step.node) if isinstance(n, ast.Return) and n.lineno < min(c.lineno for c in sweeps)]
    if early:
        r.bad(Finding("time-bookkeeping", "TEBD.step", f"can return at line {early[0].lineno} before any sweep is performed: a sweep queued by the previous step is then never applied "
                      "although update_to reports the target time", where=f"{step.module.relpath}:{early[0].lineno}", operand="early-return"))
    else:
        r.ok("TEBD.step[always sweeps]", nontrivial=False)
    ok = True
    for c in sweeps:
        kws = {k.arg: src_of(k.value) for k in c.keywords if k.arg}
        args = [src_of(a) for a in c.args]
        if kws.get("dt") != "dt":
            ok = False
            r.bad(Finding("time-bookkeeping", "TEBD.step", "a sweep is not given the step's dt", where=where, operand="sweep-dt"))
    sched = [n for n in ast.walk(step.node) if isinstance(n, ast.For) and isinstance(n.iter, ast.Call) and dotted(n.iter.func) == "trotter_schedule"]
    sdefs = {}
    for n in ast.walk(step.node):
        if isinstance(n, ast.Assign) and isinstance(n.targets[0], ast.Name):
            sdefs[n.targets[0].id] = n.value
    good_sched = False
    if len(sched) == 1 and isinstance(sched[0].target, ast.Tuple) and len(sched[0].target.elts) == 2:
        kv, fv = [src_of(e) for e in sched[0].target.elts]
        it = sched[0].iter
        ikws = {k.arg: src_of(k.value) for k in it.keywords if k.arg}
        iargs = [src_of(a) for a in it.args]
        inside = all(any(c is x for x in ast.walk(sched[0])) for c in sweeps)
        good_args = True
        for c in sweeps:
            a0, a1 = c.args[0], c.args[1]
            base = sdefs.get(a0.value.id) if isinstance(a0, ast.Subscript) and isinstance(a0.value, ast.Name) else None
            if not (isinstance(a0, ast.Subscript) and src_of(a0.slice) == kv and const_value(base, None) == ("right", "left") and src_of(a1) == fv):
                good_args = False
        good_sched = inside and good_args and iargs[:1] == ["2"] and ikws.get("order") == "order"
    if good_sched:
        r.ok("TEBD.step[schedule]", sample={"schedule": "trotter_schedule(2, order=order)", "directions": "(right, left)[layer]"})
    else:
        ok = False
        r.bad(Finding("time-bookkeeping", "TEBD.step", "sweeps are not driven by (layer, fraction) of trotter_schedule(2, order=order) over (right, left)", where=where, operand="schedule"))
    adv = [n for n in step.node.body if isinstance(n, ast.AugAssign) and isinstance(n.op, ast.Add) and src_of(n.target) == "self.t"]
    rebind = [n for n in step.node.body if isinstance(n, ast.Assign) and src_of(n.targets[0]) == "dt" and isinstance(n.value, ast.IfExp)
              and src_of(n.value).replace(" ", "") == "self._dtifdtisNoneelsedt"]
    if len(adv) == 1 and src_of(adv[0].value) == "dt" and rebind and sched and sched[0].lineno < rebind[0].lineno < adv[0].lineno:
        if ok:
            r.ok("TEBD.step[time]", sample={"time": "self.t += (self._dt if dt is None else dt), after the sweeps"})
    else:
        r.bad(Finding("time-bookkeeping", "TEBD.step", "self.t is not advanced (once, after the sweeps) by the dt handed to the sweeps", where=where, operand="time"))
    up = cls.methods["update_to"]
    where = f"{up.module.relpath}:{up.lineno}"
    # last top-level statement that calls self.step
    top_calls = [st for st in up.node.body if isinstance(st, ast.Expr) and isinstance(st.value, ast.Call) and src_of(st.value.func) == "self.step"]
    if not top_calls:
        r.bad(Finding("time-bookkeeping", "TEBD.update_to", "does not end with an unconditional final step", where=where, operand="final"))
    else:
        c = top_calls[-1].value
        kws = {k.arg: src_of(k.value) for k in c.keywords if k.arg}
        after = up.node.body[up.node.body.index(top_calls[-1]) + 1:]
        later_steps = any(isinstance(n, ast.Call) and src_of(n.func) == "self.step" for s in after for n in ast.walk(s))
        if kws.get("dt") == "T - self.t" and kws.get("queue") == "False" and kws.get("order") == "order" and not later_steps:
            r.ok("TEBD.update_to[final]", sample={"final step": kws})
        else:
            r.bad(Finding("time-bookkeeping", "TEBD.update_to", f"final step is called with {kws}; expected dt=T - self.t, queue=False, order=order", where=where, operand="final"))
    loops = [n for n in up.node.body if isinstance(n, ast.While)]
    if loops and src_of(loops[0].test).replace(" ", "") == "self.t<T-self._dt":
        kws = {}
        for n in ast.walk(loops[0]):
            if isinstance(n, ast.Call) and src_of(n.func) == "self.step":
                kws = {k.arg: src_of(k.value) for k in n.keywords if k.arg}
        if kws.get("order") == "order" and kws.get("dt") in ("None", None):
            r.ok("TEBD.update_to[loop]", sample={"loop": "while self.t < T - self._dt: step(dt=None)"})
        else:
            r.bad(Finding("time-bookkeeping", "TEBD.update_to", f"intermediate steps are called with {kws}", where=where, operand="loop"))
    else:
        r.bad(Finding("time-bookkeeping", "TEBD.update_to", "approach loop `while self.t < T - self._dt` not found", where=where, operand="loop"))
    sw = cls.methods["sweep"]
    ssrc = " ".join(src_of(sw.node).split())
    where = f"{sw.module.relpath}:{sw.lineno}"
    if any(isinstance(n, ast.AugAssign) and isinstance(n.op, ast.Mult) and src_of(n.target) == "dt_frac"
           and src_of(n.value).replace(" ", "") == "dt/self._dt" for n in ast.walk(sw.node)):
        r.ok("TEBD.sweep[scale]")
    else:
        r.bad(Finding("time-bookkeeping", "TEBD.sweep", "custom dt is not converted into a fraction of self._dt", where=where, operand="scale"))
    merged = any(isinstance(n, ast.AugAssign) and isinstance(n.op, ast.Add) and src_of(n.target) == "self._queued_sweep[1]"
                 and src_of(n.value) == "dt_frac" for n in ast.walk(sw.node))
    drained = False
    for n in ast.walk(sw.node):
        if isinstance(n, ast.If):
            for br_test, br in ((n.test, n.body),):
                if "_queued_sweep" in src_of(br_test):
                    reset = [x.lineno for s_ in br for x in ast.walk(s_) if isinstance(x, ast.Assign) and src_of(x.targets[0]) == "self._queued_sweep" and const_value(x.value, 0) is None]
                    rec = [x.lineno for s_ in br for x in ast.walk(s_) if isinstance(x, ast.Call) and src_of(x.func) == "self.sweep"
                           and any(k.arg == "queue" and const_value(k.value, None) is False for k in x.keywords)]
                    if reset and rec and min(reset) < min(rec):
                        drained = True
    if merged and drained:
        r.ok("TEBD.sweep[queue]")
    else:
        r.bad(Finding("time-bookkeeping", "TEBD.sweep", "queued sweep is not merged / drained as expected", where=where, operand="queue"))
    # every gate of a sweep is built with the sweep's dt_frac
    gets = [n for n in ast.walk(sw.node) if isinstance(n, ast.Call) and src_of(n.func) == "self._get_gate_from_ham"]
    # (that the pair a gate is requested for is the pair it is applied to is decided by gate-orientation)
    if gets and all(g.args and isinstance(g.args[0], ast.Name) and g.args[0].id == "dt_frac" for g in gets):
        r.ok("TEBD.sweep[gates]", sample={"gates": len(gets), "built with": "the sweep's dt_frac"})
    else:
        r.bad(Finding("time-bookkeeping", "TEBD.sweep", "a gate is not built with the sweep's dt_frac", where=where, operand="gates"))
    return r


# -------------------------------------------------------------- term sharing
def rule_term_sharing(ctx):
    r = RuleResult(
        "term-sharing",
        "LocalHamGen.__init__ adds each single-site term to every covering pair: in the loop over the list P of "
        "pairs covering a site, terms[pair] accumulates a value divided by len(P) of that same list, placed on "
        "the side selected by pair.index(site); both sites of every pair are registered as covered",
    )
    f = ctx.prog.func(TEBDAG, "LocalHamGen.__init__")
    where = f"{f.module.relpath}:{f.lineno}"
    defs = {}
    for n in ast.walk(f.node):
        if isinstance(n, ast.Assign) and len(n.targets) == 1 and isinstance(n.targets[0], ast.Name):
            defs.setdefault(n.targets[0].id, []).append(n.value)
    found = False
    for lp in ast.walk(f.node):
        if not isinstance(lp, ast.For):
            continue
        if isinstance(lp.iter, ast.Name) and isinstance(lp.target, ast.Name):
            P, pv = lp.iter.id, lp.target.id
        elif isinstance(lp.iter, ast.Call) and isinstance(lp.iter.func, ast.Attribute) and lp.iter.func.attr in ("items", "keys") and isinstance(lp.iter.func.value, ast.Name) \
                and isinstance(lp.target, (ast.Tuple, ast.Name)):
            # for pair, <stored value> in P.items(): the pair is still the loop key; a side taken from the stored value is not the pair's
            P = lp.iter.func.value.id
            pv = lp.target.elts[0].id if isinstance(lp.target, ast.Tuple) and isinstance(lp.target.elts[0], ast.Name) else (lp.target.id if isinstance(lp.target, ast.Name) else None)
            if pv is None:
                continue
        else:
            continue
        pdefs = defs.get(P, [])
        if not any(isinstance(d, ast.Subscript) and "_sites_to_covering_terms" in src_of(d.value) for d in pdefs):
            continue
        site_expr = next(src_of(d.slice) for d in pdefs if isinstance(d, ast.Subscript))
        found = True
        stores = [n for n in ast.walk(lp) if isinstance(n, ast.Assign) and isinstance(n.targets[0], ast.Subscript)
                  and src_of(n.targets[0].value) == "self.terms" and src_of(n.targets[0].slice) == pv]
        if len(stores) != 1:
            r.bad(Finding("term-sharing", "LocalHamGen.__init__", "covering-pair loop does not update terms[pair] exactly once", where=where, operand="store"))
            continue
        st = stores[0]
        accum = any(isinstance(n, ast.Subscript) and src_of(n) == f"self.terms[{pv}]" and isinstance(n.ctx, ast.Load) for n in ast.walk(st.value))
        divs = [n for n in ast.walk(st.value) if isinstance(n, ast.Call) and isinstance(n.func, ast.Attribute) and n.func.attr == "_div_cached"]
        divs += [n for n in ast.walk(st.value) if isinstance(n, ast.BinOp) and isinstance(n.op, ast.Div)]
        ok_div = False
        for d in divs:
            den = d.args[1] if isinstance(d, ast.Call) and len(d.args) == 2 else (d.right if isinstance(d, ast.BinOp) else None)
            cands = [den] + (defs.get(den.id, []) if isinstance(den, ast.Name) else [])
            if any(src_of(c).replace(" ", "") == f"len({P})" for c in cands if c is not None):
                ok_div = True
        if accum:
            r.ok("LocalHamGen.__init__[accumulate]", sample={"loop": f"for {pv} in {P}", "store": src_of(st)[:90]})
        else:
            r.bad(Finding("term-sharing", "LocalHamGen.__init__", "terms[pair] is overwritten instead of accumulated", where=where, operand="accumulate"))
        if ok_div:
            r.ok("LocalHamGen.__init__[divisor]", sample={"divisor": f"len({P})"})
        else:
            r.bad(Finding("term-sharing", "LocalHamGen.__init__", f"the shared single-site term is not divided by len({P}) of the list being iterated", where=where, operand="divisor"))
        # side selection
        side = any(isinstance(n, ast.Call) and isinstance(n.func, ast.Attribute) and n.func.attr == "index"
                   and src_of(n.func.value) == pv and n.args and src_of(n.args[0]) == site_expr for n in ast.walk(lp))
        if side:
            r.ok("LocalHamGen.__init__[side]", sample={"side": f"{pv}.index({site_expr})"})
        else:
            r.bad(Finding("term-sharing", "LocalHamGen.__init__", f"the side of the pair the site occupies is not computed from the pair as it is keyed now (`{pv}.index({site_expr})`): a side "
                                                                   "remembered from before the pairs were re-oriented puts the single-site term on the wrong end of every flipped bond", where=where, operand="side"))
    if not found:
        raise AnalysisError("LocalHamGen.__init__: covering-pair loop not found")
    # registration of both sites
    regs = [n for n in ast.walk(f.node) if isinstance(n, ast.Call) and isinstance(n.func, ast.Attribute) and n.func.attr == "append"
            and "_sites_to_covering_terms" in src_of(n.func.value)]
    regs += [n for n in ast.walk(f.node) if isinstance(n, ast.Assign) and isinstance(n.targets[0], ast.Subscript) and "_sites_to_covering_terms" in src_of(n.targets[0])]
    if len(regs) >= 2 and len({src_of(n.func.value) if isinstance(n, ast.Call) else src_of(n.targets[0].value) for n in regs}) >= 2:
        r.ok("LocalHamGen.__init__[covering]")
    else:
        r.bad(Finding("term-sharing", "LocalHamGen.__init__", "both sites of a pair are not registered as covered", where=where, operand="covering"))
    return r


# --------------------------------------------------------- memo-key-complete
def rule_memo_key_complete(ctx):
    r = RuleResult(
        "memo-key-complete",
        "in the TEBD / local-Hamiltonian classes a memoised value may depend only on what its key records: every "
        "value-carrying attribute self.<a> that flows into the cached expression (directly or through locals) and "
        "that is assigned anywhere outside __init__ must appear in the key — otherwise a later call with a changed "
        "attribute (e.g. the time step) is served the stale entry",
    )
    n = 0
    for modname in ("quimb.tensor.tn1d.tebd", "quimb.tensor.tnag.tebd", "quimb.tensor.tn2d.tebd", "quimb.tensor.tn3d.tebd"):
        m = ctx.prog.module(modname)
        for cls in m.classes.values():
            # attributes assigned outside __init__ anywhere in the hierarchy
            mutable = set()
            for c in cls.mro + cls.all_subclasses():
                for name, g in c.methods.items():
                    if g.is_alias or isinstance(g.node, ast.Lambda) or name == "__init__":
                        continue
                    for x in ast.walk(g.node):
                        if isinstance(x, (ast.Assign, ast.AugAssign)):
                            for t in (x.targets if isinstance(x, ast.Assign) else [x.target]):
                                for tt in ast.walk(t):
                                    if isinstance(tt, ast.Attribute) and isinstance(tt.value, ast.Name) and tt.value.id == "self" and isinstance(tt.ctx, ast.Store):
                                        mutable.add(tt.attr)
            for name, f in cls.methods.items():
                if f.cls is not cls or f.is_alias or isinstance(f.node, ast.Lambda):
                    continue
                defs = {}
                for x in ast.walk(f.node):
                    if isinstance(x, ast.Assign):
                        for t in x.targets:
                            if isinstance(t, ast.Name):
                                defs.setdefault(t.id, []).append(x.value)
                # stores  <cache>[key] = EXPR   (incl. chained  U = cache[key] = EXPR)
                for x in ast.walk(f.node):
                    if not isinstance(x, ast.Assign):
                        continue
                    # memo pattern: `<cache>[k] = EXPR` with k a local that is also tested for membership / looked up under KeyError
                    memo_keys = {c_.left.id for c_ in ast.walk(f.node) if isinstance(c_, ast.Compare) and isinstance(c_.left, ast.Name)
                                 and len(c_.ops) == 1 and isinstance(c_.ops[0], (ast.In, ast.NotIn))}
                    if any(isinstance(h_, ast.ExceptHandler) and h_.type is not None and "KeyError" in src_of(h_.type) for h_ in ast.walk(f.node)):
                        memo_keys |= {t_.slice.id for t_ in ast.walk(f.node) if isinstance(t_, ast.Subscript) and isinstance(t_.slice, ast.Name) and isinstance(t_.ctx, ast.Load)}
                    subs = [t for t in x.targets if isinstance(t, ast.Subscript) and isinstance(t.slice, ast.Name) and t.slice.id in memo_keys and t.slice.id in defs]
                    if not subs:
                        continue
                    n += 1
                    kname = subs[0].slice.id
                    keyexpr = defs[kname][-1]
                    keynames = {y.id for y in ast.walk(keyexpr) if isinstance(y, ast.Name)} | {
                        y.attr for y in ast.walk(keyexpr) if isinstance(y, ast.Attribute) and src_of(y.value) == "self"}

                    def attrs_in(e, depth=0):
                        out = set()
                        for y in ast.walk(e):
                            if isinstance(y, ast.Attribute) and isinstance(y.value, ast.Name) and y.value.id == "self":
                                out.add(y)
                            if isinstance(y, ast.Name) and y.id in defs and depth < 4 and y.id != kname:
                                for d in defs[y.id]:
                                    if d is not e:
                                        out |= attrs_in(d, depth + 1)
                        return out

                    value_attrs = set()
                    for a in attrs_in(x.value):
                        # an attribute used as the receiver of a method call is an object, not a value input
                        is_receiver = any(isinstance(c, ast.Call) and isinstance(c.func, ast.Attribute) and c.func.value is a for c in ast.walk(f.node))
                        if not is_receiver:
                            value_attrs.add(a.attr)
                    missing = sorted(a for a in value_attrs if a in mutable and a not in keynames)
                    q = f"{cls.name}.{name}"
                    if missing:
                        r.bad(Finding("memo-key-complete", q,
                                      f"memoises `{src_of(x.value)[:50]}` under key `{src_of(keyexpr)[:40]}` (line {x.lineno}) although it depends on self.{', self.'.join(missing)}, "
                                      f"which can change after construction: a later call with a different value is served the stale entry",
                                      where=f"{m.relpath}:{f.lineno}", operand=",".join(missing)))
                    else:
                        r.ok(q, sample={"method": q, "key": src_of(keyexpr)[:40], "depends on mutable attributes": "none outside the key"})
    r.floor(n, 5, "memoising stores in TEBD / local Hamiltonian classes")
    return r


def rule_default_orientation(ctx):
    r = RuleResult(
        "default-orientation",
        "LocalHam1D spreads a default two-site term only over bonds that have no specific term in *either* key "
        "orientation: the guard of the default assignment tests both (a, b) and (b, a) for absence — testing one "
        "orientation only (e.g. dict.setdefault) adds the default on top of a term supplied as (b, a)",
    )
    f = ctx.prog.func(TEBD1D, "LocalHam1D.__init__")
    where = f"{f.module.relpath}:{f.lineno}"
    dname = None
    for x in ast.walk(f.node):
        if isinstance(x, ast.Assign) and isinstance(x.value, ast.Call) and isinstance(x.value.func, ast.Attribute) and x.value.func.attr == "pop" \
                and x.value.args and const_value(x.value.args[0], 0) is None and isinstance(x.targets[0], ast.Name) and "H2" in src_of(x.value.func.value):
            dname = x.targets[0].id
    if dname is None:
        raise AnalysisError("LocalHam1D.__init__: default two-site term not found")
    stores = []
    for x in ast.walk(f.node):
        if isinstance(x, ast.Assign) and isinstance(x.targets[0], ast.Subscript) and src_of(x.value) == dname:
            stores.append(("store", x))
        if isinstance(x, ast.Call) and isinstance(x.func, ast.Attribute) and x.func.attr == "setdefault" and len(x.args) == 2 and src_of(x.args[1]) == dname:
            stores.append(("setdefault", x))
    if not stores:
        raise AnalysisError("LocalHam1D.__init__: default term is never assigned to a bond")
    for kind, x in stores:
        guard = None
        for iff in ast.walk(f.node):
            if isinstance(iff, ast.If) and any(x is y for s in iff.body for y in ast.walk(s)):
                guard = iff
        tests = []
        if guard is not None:
            for c in ast.walk(guard.test):
                if isinstance(c, ast.Compare) and isinstance(c.ops[0], ast.NotIn) and isinstance(c.left, ast.Tuple) and len(c.left.elts) == 2:
                    tests.append((src_of(c.left.elts[0]), src_of(c.left.elts[1])))
        both = any((b, a) in tests for a, b in tests)
        if kind == "store" and both:
            r.ok("LocalHam1D.__init__[default guard]", sample={"guard": src_of(guard.test)[:80]})
        else:
            r.bad(Finding("default-orientation", "LocalHam1D.__init__",
                          f"the default two-site term is assigned (line {x.lineno}, {kind}) without testing both key orientations for an existing term",
                          where=where))
    return r


def rule_gate_orientation(ctx):
    r = RuleResult(
        "gate-orientation",
        "two-site terms are stored once under the sorted pair, in that pair's order: LocalHamGen.get_gate, which accepts the "
        "pair in either order, must compare the requested order with the stored one and return the flipped operator when "
        "they differ (otherwise TEBD's periodic boundary gate, requested and applied as (L-1, 0), acts with its factors "
        "exchanged); in TEBD.sweep every gate is applied on exactly the site pair it was requested for",
    )
    f = ctx.prog.func(TEBDAG, "LocalHamGen.get_gate")
    if f is None:
        raise AnalysisError("LocalHamGen.get_gate not found")
    where = f"{f.module.relpath}:{f.lineno}"
    pname = [p for p in f.params if p != "self"][0]
    canon = [c for c in ast.walk(f.node) if isinstance(c, ast.Call) and isinstance(c.func, ast.Name) and c.func.id == "sorted" and any(isinstance(x, ast.Name) and x.id == pname for a in c.args for x in ast.walk(a))]
    if not canon:
        # no canonicalisation: the lookup is by the order given (a KeyError for the other order is loud)
        r.ok("LocalHamGen.get_gate", sample={"lookup": "by the order given"})
    else:
        inside = {id(x) for c in canon for x in ast.walk(c)}
        other_uses = [x for x in ast.walk(f.node) if isinstance(x, ast.Name) and x.id == pname and isinstance(x.ctx, ast.Load) and id(x) not in inside]
        compares = [c for c in ast.walk(f.node) if isinstance(c, ast.Compare) and any(x in other_uses for x in ast.walk(c))]
        flips = [c for c in ast.walk(f.node) if isinstance(c, ast.Call) and ("flip" in (getattr(c.func, "attr", "") or getattr(c.func, "id", "") or "") or "transpose" in src_of(c))]
        if compares and flips:
            r.ok("LocalHamGen.get_gate", sample={"lookup": "sorted pair", "order test": src_of(compares[0]), "compensation": src_of(flips[0])[:40]})
        else:
            r.bad(Finding(
                "gate-orientation", "LocalHamGen.get_gate",
                f"looks the term up under sorted({pname}) and returns it as stored, whatever order was requested: for {pname}=(j, i) with j > i the "
                "caller receives the operator in (i, j) order and applies it on (j, i) — wrong for any term that is not symmetric under exchange "
                "of its two sites (TEBD with a cyclic LocalHam1D requests the boundary gate as (L-1, 0))",
                where=where, operand="unflipped"))
    # TEBD.sweep: requested pair == applied pair
    sw = ctx.prog.func(TEBD1D, "TEBD.sweep")
    if sw is None:
        raise AnalysisError("TEBD.sweep not found")
    n = 0
    last_req = None
    events = []
    for x in ast.walk(sw.node):
        if isinstance(x, ast.Assign) and isinstance(x.value, ast.Call) and isinstance(x.value.func, ast.Attribute) and x.value.func.attr == "_get_gate_from_ham":
            a = x.value.args[1] if len(x.value.args) > 1 else next((k.value for k in x.value.keywords if k.arg == "sites"), None)
            events.append((x.lineno, "req", src_of(a) if a is not None else None, src_of(x.targets[0])))
        if isinstance(x, ast.Call) and isinstance(x.func, ast.Attribute) and x.func.attr in ("gate_split_", "gate_split", "gate_", "gate"):
            wv = next((k.value for k in x.keywords if k.arg == "where"), x.args[1] if len(x.args) > 1 else None)
            events.append((x.lineno, "app", src_of(wv) if wv is not None else None, src_of(x.args[0]) if x.args else None))
    events.sort()
    for ln, kind, sites, gate in events:
        if kind == "req":
            last_req = (sites, gate)
        else:
            n += 1
            if last_req is None or last_req[1] != gate or last_req[0] != sites:
                r.bad(Finding("gate-orientation", "TEBD.sweep", f"gate `{gate}` applied on `{sites}` (line {ln}) but requested for `{last_req[0] if last_req else None}`",
                              where=f"{sw.module.relpath}:{ln}", operand=f"applied:{sites}"))
            else:
                r.ok(f"TEBD.sweep@{sites}", sample={"requested for": sites, "applied on": sites}, nontrivial=False)
    r.floor(n, 4, "gate applications in TEBD.sweep")
    return r


def rule_renorm_at_centre(ctx):
    r = RuleResult(
        "renorm-at-centre",
        "TEBD.sweep renormalises an imaginary-time state by the norm of one site tensor; that equals the norm of the state "
        "only at the orthogonality centre. In each direction branch the site used (the value the branch leaves in the "
        "renormalisation index) must be where the branch's last canonization move puts the centre: left_canonize_site(i) "
        "moves it to i + 1, right_canonize_site(i) to i - 1 (compared as linear forms in L)",
    )
    cls = ctx.prog.cls(TEBD1D, "TEBD")
    sw = cls.methods["sweep"]
    where = f"{sw.module.relpath}:{sw.lineno}"
    # the renormalisation:  factor = self._pt[<idx>].norm()
    idx = None
    for a in ast.walk(sw.node):
        if isinstance(a, ast.Call) and isinstance(a.func, ast.Attribute) and a.func.attr == "norm" and isinstance(a.func.value, ast.Subscript) and "_pt" in src_of(a.func.value.value):
            idx = a.func.value.slice
    if idx is None:
        raise AnalysisError("TEBD.sweep: renormalisation by a site norm not found")
    if not isinstance(idx, ast.Name):
        raise AnalysisError("TEBD.sweep: renormalisation index is not a local")

    def lin(e):
        """(coefficient of L, constant) or None"""
        if isinstance(e, ast.Constant) and isinstance(e.value, int):
            return (0, e.value)
        if isinstance(e, ast.Attribute) and e.attr == "L":
            return (1, 0)
        if isinstance(e, ast.BinOp) and isinstance(e.op, (ast.Add, ast.Sub)):
            a, b = lin(e.left), lin(e.right)
            if a is None or b is None:
                return None
            sg = 1 if isinstance(e.op, ast.Add) else -1
            return (a[0] + sg * b[0], a[1] + sg * b[1])
        return None

    branches = []
    for n in ast.walk(sw.node):
        if isinstance(n, ast.If) and isinstance(n.test, ast.Compare) and isinstance(n.test.left, ast.Name) and n.test.left.id == "direction":
            cur = n
            while isinstance(cur, ast.If) and isinstance(cur.test, ast.Compare) and isinstance(cur.test.left, ast.Name) and cur.test.left.id == "direction":
                branches.append((const_value(cur.test.comparators[0], "?"), cur.body))
                cur = cur.orelse[0] if len(cur.orelse) == 1 and isinstance(cur.orelse[0], ast.If) else None
            break
    if len(branches) < 2:
        raise AnalysisError("TEBD.sweep: direction branches not found")
    # a periodic state has no orthogonality centre at all: when the class supports cyclic states (sweep reads self.cyclic) the factor is
    # the norm of the *whole* state there — `<state>.norm()` with the network itself as receiver, under a test on self.cyclic
    handles_cyclic = any(isinstance(y, ast.Attribute) and y.attr == "cyclic" for y in ast.walk(sw.node))
    if handles_cyclic:
        whole = False
        for st in ast.walk(sw.node):
            if isinstance(st, ast.If) and any(isinstance(y, ast.Attribute) and y.attr == "cyclic" for y in ast.walk(st.test)):
                for x in ast.walk(st):
                    if isinstance(x, ast.Call) and isinstance(x.func, ast.Attribute) and x.func.attr == "norm" and isinstance(x.func.value, ast.Attribute) and x.func.value.attr == "_pt":
                        whole = True
        if whole:
            r.ok("TEBD.sweep[cyclic]", sample={"periodic states": "renormalised by the norm of the whole state"})
        else:
            r.bad(Finding("renorm-at-centre", "TEBD.sweep", "periodic states are renormalised by the norm of one site tensor as well: a cyclic MPS has no orthogonality centre, so that is not "
                                                             "the norm of the state and imaginary-time evolution returns an unnormalised state", where=where, operand="cyclic"))
    for label, body in branches:
        moves = []
        sets = []
        for st in body:
            for x in ast.walk(st):
                if isinstance(x, ast.Call) and isinstance(x.func, ast.Attribute) and x.func.attr in ("left_canonize_site", "right_canonize_site") and x.args:
                    moves.append(x)
                if isinstance(x, ast.Assign) and any(isinstance(t, ast.Name) and t.id == idx.id for t in x.targets):
                    sets.append(x)
        # the unconditional (top level of the branch) moves only: the last one decides where the centre ends
        top_moves = [x for st in body if isinstance(st, ast.Expr) for x in [st.value] if isinstance(x, ast.Call) and isinstance(x.func, ast.Attribute) and x.func.attr in ("left_canonize_site", "right_canonize_site")]
        if not top_moves or not sets:
            r.skip(f"TEBD.sweep[{label}]", "no unconditional final canonization move / no renormalisation index in this branch")
            continue
        last = max(top_moves, key=lambda x: x.lineno)
        a = lin(last.args[0])
        used = lin(max(sets, key=lambda x: x.lineno).value)
        if a is None or used is None:
            r.skip(f"TEBD.sweep[{label}]", "site expressions are not linear in L")
            continue
        centre = (a[0], a[1] + (1 if last.func.attr == "left_canonize_site" else -1))
        fmt = lambda lf: (f"{lf[0]}*L" if lf[0] else "") + (f"{lf[1]:+d}" if lf[1] or not lf[0] else "")
        if centre == used:
            r.ok(f"TEBD.sweep[{label}]", sample={"direction": label, "last move": src_of(last)[:40], "centre": fmt(centre), "renormalised at": fmt(used)})
        else:
            r.bad(Finding("renorm-at-centre", "TEBD.sweep",
                          f"direction `{label}`: the last move `{src_of(last)[:40]}` leaves the centre at site {fmt(centre)}, but the state is renormalised by the norm of site {fmt(used)} "
                          "(an isometric tensor there has norm sqrt(bond dimension), not the norm of the state)", where=f"{sw.module.relpath}:{last.lineno}", operand=str(label)))
    return r
