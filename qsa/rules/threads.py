"""C16: threaded / strided kernels share one template; the partition helper
never divides by zero; worker failures are observed."""

import ast

from ..framework import RuleResult, Finding
from ..model import dotted, src_of, const_value
from .. import AnalysisError

CORE = "quimb.core"
KPARAMS = ("thread_rank", "num_threads", "target_block_size")


def _kernels(ctx):
    m = ctx.prog.module(CORE)
    return [f for f in m.functions.values() if all(p in f.params for p in KPARAMS)]


def _resolve_defs(fnode):
    """name -> expression for single-assignment locals (tuple unpack of
    ``X.shape`` becomes ``X.shape[i]``)."""
    defs, multi = {}, set()
    for n in ast.walk(fnode):
        if isinstance(n, ast.Assign) and len(n.targets) == 1:
            t = n.targets[0]
            if isinstance(t, ast.Name):
                if t.id in defs:
                    multi.add(t.id)
                defs[t.id] = n.value
            elif isinstance(t, ast.Tuple):
                for i, e in enumerate(t.elts):
                    if isinstance(e, ast.Name):
                        if e.id in defs:
                            multi.add(e.id)
                        if isinstance(n.value, ast.Tuple) and len(n.value.elts) == len(t.elts):
                            defs[e.id] = n.value.elts[i]
                        else:
                            defs[e.id] = ast.Subscript(value=n.value, slice=ast.Constant(value=i), ctx=ast.Load())
    for k in multi:
        defs.pop(k, None)
    return defs


class _Subst(ast.NodeTransformer):
    def __init__(self, mapping):
        self.mapping = mapping
        self.depth = 0

    def visit_Name(self, node):
        if node.id in self.mapping and self.depth < 8:
            self.depth += 1
            import copy
            r = self.visit(copy.deepcopy(self.mapping[node.id]))  # never transform the program's own nodes in place
            self.depth -= 1
            return r
        return node

    def visit_Call(self, node):
        self.generic_visit(node)
        # x.ravel() / x.reshape(-1) do not change the size
        if isinstance(node.func, ast.Attribute) and node.func.attr == "ravel" and not node.args:
            return node.func.value
        return node


def _norm(expr, mapping):
    import copy

    e = _Subst(mapping).visit(copy.deepcopy(expr))
    return ast.dump(e, annotate_fields=False)


def rule_kernel_template(ctx):
    r = RuleResult(
        "kernel-template",
        "every function with parameters (thread_rank, num_threads, target_block_size) obtains its partition "
        "from threading_choose_num_blocks(<size>, target_block_size, num_threads) with its own parameters, "
        "loops `for b in range(thread_rank, num_blocks, num_threads)`, takes its inner bounds only from "
        "threading_get_block_range(b, base, rem), and writes only at the inner block index; its public wrapper "
        "passes to maybe_multithread all kernel arguments and forwards its own target_block_size/num_threads",
    )
    kernels = _kernels(ctx)
    r.floor(len(kernels), 10, "block kernels in quimb/core.py")
    m = ctx.prog.module(CORE)
    ksize = {}
    for f in kernels:
        where = f"{m.relpath}:{f.lineno}"
        q = f.qualname
        problems = []
        choose = [n for n in ast.walk(f.node) if isinstance(n, ast.Call) and dotted(n.func) == "threading_choose_num_blocks"]
        if len(choose) != 1:
            problems.append("does not call threading_choose_num_blocks exactly once")
            for p in problems:
                r.bad(Finding("kernel-template", q, p, where=where, operand="choose"))
            continue
        c = choose[0]
        args = [src_of(a) for a in c.args]
        if len(args) != 3 or args[1] != "target_block_size" or args[2] != "num_threads":
            problems.append(f"threading_choose_num_blocks is called with {args}, expected (<size>, target_block_size, num_threads)")
        # the assignment of its result
        tgt = None
        for n in ast.walk(f.node):
            if isinstance(n, ast.Assign) and n.value is c and isinstance(n.targets[0], ast.Tuple) and len(n.targets[0].elts) == 3:
                tgt = [e.id for e in n.targets[0].elts]
        if tgt is None:
            problems.append("result of threading_choose_num_blocks is not unpacked into three names")
            tgt = ["num_blocks", "base_block_size", "block_remainder"]
        nb, bbs, rem = tgt
        loops = [n for n in f.node.body if isinstance(n, ast.For)]
        outer = None
        for lp in loops:
            if isinstance(lp.iter, ast.Call) and dotted(lp.iter.func) == "range":
                outer = lp
        if outer is None or [src_of(a) for a in outer.iter.args] != ["thread_rank", nb, "num_threads"]:
            problems.append(f"outer loop is not `for b in range(thread_rank, {nb}, num_threads)`")
        else:
            bvar = outer.target.id if isinstance(outer.target, ast.Name) else None
            first = outer.body[0] if outer.body else None
            ok = (
                isinstance(first, ast.Assign) and isinstance(first.value, ast.Call)
                and dotted(first.value.func) == "threading_get_block_range"
                and [src_of(a) for a in first.value.args] == [bvar, bbs, rem]
                and isinstance(first.targets[0], ast.Tuple) and len(first.targets[0].elts) == 2
            )
            if not ok:
                problems.append(f"block bounds are not `threading_get_block_range({bvar}, {bbs}, {rem})`")
            else:
                lo, hi = [e.id for e in first.targets[0].elts]
                inner = [n for n in outer.body[1:] if isinstance(n, ast.For)]
                if len(inner) != 1 or not isinstance(inner[0].iter, ast.Call) or [src_of(a) for a in inner[0].iter.args] != [lo, hi]:
                    problems.append(f"inner loop is not `for i in range({lo}, {hi})`")
                else:
                    ivar = inner[0].target.id
                    # no other statements touching arrays outside the inner loop
                    # write-disjointness
                    arrays = set(f.posparams)
                    stores = []
                    for n in ast.walk(f.node):
                        if isinstance(n, (ast.Assign, ast.AugAssign)):
                            ts = n.targets if isinstance(n, ast.Assign) else [n.target]
                            for t in ts:
                                if isinstance(t, ast.Subscript) and isinstance(t.value, ast.Name) and t.value.id in arrays:
                                    stores.append((t, n))
                    if not stores:
                        problems.append("kernel writes to no output array")
                    written = set()
                    for t, n in stores:
                        idx = t.slice.elts[0] if isinstance(t.slice, ast.Tuple) else t.slice
                        inside = any(n is x for x in ast.walk(inner[0]))
                        if not inside:
                            problems.append(f"store {src_of(t)} is outside the block loop")
                        elif not (isinstance(idx, ast.Name) and idx.id == ivar):
                            problems.append(f"store {src_of(t)} is not indexed by the block index `{ivar}` (write ranges of different threads may overlap)")
                        written.add(t.value.id)
                    # partition domain: the size that is split into blocks must be an extent of an array that the kernel
                    # indexes *directly* by the block index (the written array or one read at [i] / [i + 1]); a size taken
                    # from an array that is only indexed indirectly (vec[indices[j]]) is the wrong dimension for any
                    # non-square problem
                    size_e = c.args[0] if c.args else None
                    sdefs = _resolve_defs(f.node)
                    hops = 0
                    while isinstance(size_e, ast.Name) and size_e.id in sdefs and hops < 4:
                        size_e = sdefs[size_e.id]
                        hops += 1
                    size_bases = set()
                    if size_e is not None:
                        for x in ast.walk(size_e):
                            if isinstance(x, ast.Attribute) and x.attr in ("size", "shape") and isinstance(x.value, ast.Name):
                                size_bases.add(x.value.id)
                            if isinstance(x, ast.Call) and isinstance(x.func, ast.Name) and x.func.id == "len" and x.args and isinstance(x.args[0], ast.Name):
                                size_bases.add(x.args[0].id)
                    direct = set()
                    for x in ast.walk(inner[0]):
                        if isinstance(x, ast.Subscript) and isinstance(x.value, ast.Name) and x.value.id in arrays:
                            i0 = x.slice.elts[0] if isinstance(x.slice, ast.Tuple) else x.slice
                            if (isinstance(i0, ast.Name) and i0.id == ivar) or (isinstance(i0, ast.BinOp) and isinstance(i0.left, ast.Name) and i0.left.id == ivar):
                                direct.add(x.value.id)
                    if size_bases and not (size_bases & direct):
                        problems.append(
                            f"partitions `{src_of(c.args[0])}` = extent of {sorted(size_bases)}, but the block index `{ivar}` directly indexes only {sorted(direct)}: "
                            "rows beyond that extent are never computed (or read out of bounds) when the two differ")
                    # block-carried index state: a local that indexes an array, is carried from one element of the block
                    # loop to the next (augmented / self-referential assignment, or read before it is set in the body) and is
                    # not re-derived at the head of every block is only right if a thread's blocks are contiguous -- they are
                    # not whenever a thread owns more than one block (negative target_block_size)
                    body = inner[0].body
                    top_assigned_at = {}
                    for k_, st_ in enumerate(body):
                        if isinstance(st_, ast.Assign):
                            for t_ in st_.targets:
                                for y_ in ast.walk(t_):
                                    if isinstance(y_, ast.Name) and isinstance(y_.ctx, ast.Store):
                                        rhs_names = {z.id for z in ast.walk(st_.value) if isinstance(z, ast.Name)}
                                        if y_.id not in rhs_names:
                                            top_assigned_at.setdefault(y_.id, k_)
                    carried = set()
                    for k_, st_ in enumerate(body):
                        for y_ in ast.walk(st_):
                            if isinstance(y_, ast.AugAssign) and isinstance(y_.target, ast.Name):
                                carried.add(y_.target.id)
                            if isinstance(y_, ast.Assign):
                                tn_ = {z.id for t_ in y_.targets for z in ast.walk(t_) if isinstance(z, ast.Name)}
                                rn_ = {z.id for z in ast.walk(y_.value) if isinstance(z, ast.Name)}
                                carried |= (tn_ & rn_)
                    carried -= {v_ for v_ in carried if top_assigned_at.get(v_) == 0}
                    loopvars = {ivar} | {z.id for x_ in ast.walk(inner[0]) if isinstance(x_, ast.For) for z in ast.walk(x_.target) if isinstance(z, ast.Name)}
                    carried -= loopvars
                    index_names = set()
                    for x in ast.walk(inner[0]):
                        if isinstance(x, ast.Subscript) and isinstance(x.value, ast.Name) and x.value.id in arrays:
                            index_names |= {z.id for z in ast.walk(x.slice) if isinstance(z, ast.Name)}
                    pre_inner = outer.body[1:outer.body.index(inner[0])]
                    reinit = {z.id for st_ in pre_inner if isinstance(st_, ast.Assign) for t_ in st_.targets for z in ast.walk(t_) if isinstance(z, ast.Name)}
                    for v_ in sorted((carried & index_names) - reinit):
                        problems.append(
                            f"index `{v_}` is carried from one element to the next inside the block loop and is not re-derived at the head of each block: "
                            "a thread that owns several non-adjacent blocks continues from the wrong position")
                    # reductions must go to locals: any AugAssign to a bare parameter name is a shared write
                    for n in ast.walk(f.node):
                        if isinstance(n, ast.AugAssign) and isinstance(n.target, ast.Name) and n.target.id in arrays:
                            problems.append(f"augmented assignment to parameter `{n.target.id}` (shared across threads)")
        # size expression in terms of kernel parameters
        defs = _resolve_defs(f.node)
        ksize[f.name] = (f, _norm(c.args[0], defs) if c.args else None, c.args[0] if c.args else None, defs)
        if problems:
            for p in problems:
                r.bad(Finding("kernel-template", q, p, where=where, operand="partition-domain" if p.startswith("partitions `") else "block-carried-index" if p.startswith("index `") else p[:40]))
        else:
            r.ok(q, sample={"kernel": q, "size": src_of(c.args[0]), "loop": src_of(outer.iter)})
    # wrappers
    nwrap = 0
    for g in m.functions.values():
        if isinstance(g.node, ast.Lambda):
            continue
        for call in [n for n in ast.walk(g.node) if isinstance(n, ast.Call) and dotted(n.func) == "maybe_multithread"]:
            nwrap += 1
            where = f"{m.relpath}:{g.lineno}"
            kws = {k.arg: k.value for k in call.keywords if k.arg}
            miss = [k for k in ("size_total", "target_block_size", "num_threads") if k not in kws]
            if miss or not call.args:
                r.bad(Finding("kernel-template", g.qualname, f"maybe_multithread call lacks {miss}", where=where, operand="wrapper-kw"))
                continue
            if src_of(kws["target_block_size"]) != "target_block_size" or src_of(kws["num_threads"]) != "num_threads":
                r.bad(Finding("kernel-template", g.qualname, "wrapper does not forward its own target_block_size / num_threads", where=where, operand="wrapper-forward"))
                continue
            gdefs = _resolve_defs(g.node)
            # which kernels can the first argument be
            k0 = call.args[0]
            cands = []
            if isinstance(k0, ast.Name) and k0.id in ksize:
                cands = [k0.id]
            elif isinstance(k0, ast.Name):
                for n in ast.walk(g.node):
                    if isinstance(n, ast.Assign) and isinstance(n.targets[0], ast.Name) and n.targets[0].id == k0.id and isinstance(n.value, ast.Name) and n.value.id in ksize:
                        cands.append(n.value.id)
            if not cands:
                r.skip(g.qualname, "kernel argument of maybe_multithread not resolved")
                continue
            for kn in cands:
                kf, ksz, kexpr, kdefs = ksize[kn]
                kparams = [p for p in kf.posparams if p not in KPARAMS]
                wargs = call.args[1:]
                if len(wargs) != len(kparams):
                    r.bad(Finding("kernel-template", g.qualname, f"passes {len(wargs)} arguments to kernel {kn} which takes {len(kparams)}", where=where, operand="wrapper-args"))
                    continue
                # kernel size with kernel params replaced by wrapper args (resolved in the wrapper)
                mapping = dict(kdefs)
                for p, a in zip(kparams, wargs):
                    mapping[p] = a
                full = dict(gdefs)
                ks = _norm(_substitute(kexpr, mapping), full)
                ws = _norm(kws["size_total"], full)
                # size_total only selects serial vs threaded execution (both
                # are correct for any size), so a different-but-equal or even a
                # different size expression cannot change the result: noted,
                # never reported
                if ks != ws and len(r.notes) < 20:
                    r.notes.append(f"note: {g.qualname} passes size_total={src_of(kws['size_total'])} while kernel {kn} partitions {src_of(kexpr)} (threshold only)")
                r.ok(f"{g.qualname}->{kn}", sample={"wrapper": g.qualname, "kernel": kn, "arguments": len(wargs), "size_total": src_of(kws["size_total"])})
    r.floor(nwrap, 9, "maybe_multithread call sites")
    return r


def _substitute(expr, mapping):
    import copy

    return _Subst(mapping).visit(copy.deepcopy(expr))


# --------------------------------------------------------- maybe_multithread
def rule_pool_discipline(ctx):
    r = RuleResult(
        "errors-observed / submit-ranks",
        "maybe_multithread submits exactly range(num_threads) ranks with the same num_threads and forwards "
        "target_block_size; every future returned by pool.submit in quimb/core.py and quimb/operator/builder.py "
        "has .result() (or .exception()) consulted — cf.wait alone discards worker exceptions",
    )
    f = ctx.prog.func(CORE, "maybe_multithread")
    where = f"{f.module.relpath}:{f.lineno}"
    submits = [n for n in ast.walk(f.node) if isinstance(n, ast.Call) and isinstance(n.func, ast.Attribute) and n.func.attr == "submit"]
    if len(submits) != 1:
        raise AnalysisError("maybe_multithread no longer has exactly one pool.submit")
    s = submits[0]
    kws = {k.arg: src_of(k.value) for k in s.keywords if k.arg}
    gen = None
    for n in ast.walk(f.node):
        if isinstance(n, (ast.GeneratorExp, ast.ListComp)) and any(x is s for x in ast.walk(n)):
            gen = n
    for n in ast.walk(f.node):
        if isinstance(n, ast.For) and any(x is s for x in ast.walk(n)):
            gen = n
    rank_var = kws.get("thread_rank")
    ok_rank = False
    if gen is not None:
        comp = gen.generators[0] if not isinstance(gen, ast.For) else gen
        ok_rank = src_of(comp.iter) == "range(num_threads)" and src_of(comp.target) == rank_var
    if ok_rank and kws.get("num_threads") == "num_threads" and kws.get("target_block_size") == "target_block_size":
        r.ok("maybe_multithread[ranks]", sample={"submit": "one task per rank in range(num_threads)", **kws})
    else:
        r.bad(Finding("submit-ranks", "maybe_multithread",
                      f"does not submit exactly one task per rank in range(num_threads) with matching num_threads/target_block_size (got {kws})",
                      where=where, operand="ranks"))
    # errors observed
    n_sites = 0
    for modname in (CORE, "quimb.operator.builder"):
        m = ctx.prog.module(modname)
        for g in m.all_functions:
            if isinstance(g.node, ast.Lambda) or g.parent is not None:
                continue
            subs = [n for n in ast.walk(g.node) if isinstance(n, ast.Call) and isinstance(n.func, ast.Attribute) and n.func.attr == "submit"]
            if not subs:
                continue
            n_sites += len(subs)
            observed = any(
                isinstance(n, ast.Call) and isinstance(n.func, ast.Attribute) and n.func.attr in ("result", "exception")
                for n in ast.walk(g.node)
            )
            construct = g.qualname
            if observed:
                r.ok(f"{construct}[futures]", sample={"function": construct, "futures": ".result() consulted"})
            else:
                # returning the futures to the caller hands over the obligation
                returned = any(isinstance(n, ast.Return) and n.value is not None and any(x in subs for x in ast.walk(n.value)) for n in ast.walk(g.node))
                if returned:
                    r.ok(f"{construct}[futures]", nontrivial=False)
                else:
                    r.bad(Finding("errors-observed", construct,
                                  "futures returned by pool.submit are never consulted (.result()/.exception()): a worker "
                                  "exception is silently discarded and the output stays uninitialised",
                                  where=f"{m.relpath}:{g.lineno}", operand="futures"))
    r.floor(n_sites, 3, "pool.submit call sites")
    return r


# ------------------------------------------------------------ divisor-nonzero
ZERO, POS, NEG = "0", "+", "-"


def _mul(a, b):
    out = set()
    for x in a:
        for y in b:
            if x == ZERO or y == ZERO:
                out.add(ZERO)
            elif x == y:
                out.add(POS)
            else:
                out.add(NEG)
    return out


def _div(a, b):
    # true division; a zero divisor is reported separately
    out = set()
    for x in a:
        for y in b:
            if y == ZERO:
                continue
            if x == ZERO:
                out.add(ZERO)
            elif x == y:
                out.add(POS)
            else:
                out.add(NEG)
    return out


def _cmp_order(s):
    return {NEG: -1, ZERO: 0, POS: 1}[s]


class _SignInterp:
    """Sign/zero abstract interpretation of straight-line + if/elif code."""

    def __init__(self, fnode, init):
        self.fnode = fnode
        self.init = init
        self.zero_div = []
        self.checked = 0

    def run(self):
        self.block(self.fnode.body, dict(self.init))

    def block(self, body, env):
        for st in body:
            if isinstance(st, ast.Expr) and isinstance(st.value, ast.Constant):
                continue
            if isinstance(st, ast.Assign):
                v = self.ev(st.value, env)
                for t in st.targets:
                    if isinstance(t, ast.Name):
                        env[t.id] = v
                    elif isinstance(t, ast.Tuple):
                        for e in t.elts:
                            if isinstance(e, ast.Name):
                                env[e.id] = {ZERO, POS, NEG}
            elif isinstance(st, ast.If):
                e1, e2 = dict(env), dict(env)
                self.narrow(st.test, e1, True)
                self.narrow(st.test, e2, False)
                live1 = self.feasible(e1)
                live2 = self.feasible(e2)
                if live1:
                    self.block(st.body, e1)
                if live2:
                    self.block(st.orelse, e2)
                keys = set(e1) | set(e2)
                env.clear()
                for k in keys:
                    env[k] = (e1.get(k, set()) if live1 else set()) | (e2.get(k, set()) if live2 else set())
            elif isinstance(st, ast.Return):
                if st.value is not None:
                    self.ev(st.value, env)
                return
            else:
                for n in ast.walk(st):
                    if isinstance(n, ast.expr):
                        pass

    def feasible(self, env):
        return all(v for v in env.values())

    def narrow(self, test, env, truth):
        if isinstance(test, ast.Compare) and len(test.ops) == 1 and isinstance(test.left, ast.Name):
            name = test.left.id
            c = const_value(test.comparators[0], None)
            op = type(test.ops[0])
            cur = env.get(name, {ZERO, POS, NEG})
            if isinstance(c, (int, float)) and not isinstance(c, bool):
                keep = set()
                for s in cur:
                    # could a value of sign s satisfy (value OP c) == truth ?
                    poss = self._possible(s, op, c)
                    if truth in poss:
                        keep.add(s)
                env[name] = keep

    @staticmethod
    def _possible(s, op, c):
        """Set of truth values `value op c` can take for values of sign s
        (integers: + means >= 1, - means <= -1)."""
        lo, hi = {NEG: (None, -1), ZERO: (0, 0), POS: (1, None)}[s]

        def rng_true_false(pred_min, pred_max):
            return pred_min, pred_max

        out = set()
        # sample representative values
        reps = {NEG: [-1, -2, -10**9], ZERO: [0], POS: [1, 2, 10**9]}[s]
        for v in reps:
            if op is ast.Lt:
                out.add(v < c)
            elif op is ast.LtE:
                out.add(v <= c)
            elif op is ast.Gt:
                out.add(v > c)
            elif op is ast.GtE:
                out.add(v >= c)
            elif op is ast.Eq:
                out.add(v == c)
            elif op is ast.NotEq:
                out.add(v != c)
        return out

    def ev(self, n, env):
        ALL = {ZERO, POS, NEG}
        if isinstance(n, ast.Constant) and isinstance(n.value, (int, float)) and not isinstance(n.value, bool):
            return {ZERO} if n.value == 0 else ({POS} if n.value > 0 else {NEG})
        if isinstance(n, ast.Name):
            return set(env.get(n.id, ALL))
        if isinstance(n, ast.UnaryOp) and isinstance(n.op, ast.USub):
            return {{POS: NEG, NEG: POS, ZERO: ZERO}[s] for s in self.ev(n.operand, env)}
        if isinstance(n, ast.BinOp):
            a, b = self.ev(n.left, env), self.ev(n.right, env)
            if isinstance(n.op, ast.Mult):
                return _mul(a, b)
            if isinstance(n.op, (ast.Div, ast.FloorDiv, ast.Mod)):
                self.checked += 1
                if ZERO in b:
                    self.zero_div.append((n.lineno, src_of(n)))
                if isinstance(n.op, ast.Div):
                    return _div(a, b)
                if isinstance(n.op, ast.FloorDiv):
                    return _div(a, b) | ({ZERO} if a & {POS, NEG} else set())
                return {ZERO, POS, NEG}
            if isinstance(n.op, ast.Add):
                if a == {POS} and b <= {POS, ZERO} or b == {POS} and a <= {POS, ZERO}:
                    return {POS}
                if a <= {ZERO} and b <= {ZERO}:
                    return {ZERO}
                if a <= {POS, ZERO} and b <= {POS, ZERO}:
                    return {POS, ZERO}
                return ALL
            return ALL
        if isinstance(n, ast.Call):
            fn = dotted(n.func) or ""
            args = [self.ev(a, env) for a in n.args]
            base = fn.split(".")[-1]
            if base == "divmod" and len(args) == 2:
                self.checked += 1
                if ZERO in args[1]:
                    self.zero_div.append((n.lineno, src_of(n)))
                return ALL
            if base == "ceil" and len(args) == 1:
                # ceil of a positive real is >= 1; of zero is zero; of a negative real is <= 0
                out = set()
                for s in args[0]:
                    out |= {POS: {POS}, ZERO: {ZERO}, NEG: {NEG, ZERO}}[s]
                return out
            if base in ("round", "int", "floor") and len(args) >= 1:
                # rounding a positive real may give zero (e.g. 0.4)
                out = set()
                for s in args[0]:
                    out |= {POS: {POS, ZERO}, ZERO: {ZERO}, NEG: {NEG, ZERO}}[s]
                return out
            if base == "abs" and len(args) == 1:
                return {POS if s != ZERO else ZERO for s in args[0]}
            if base == "min" and len(args) >= 2:
                out = set()
                from itertools import product
                for combo in product(*args):
                    out.add(min(combo, key=_cmp_order))
                return out
            if base == "max" and len(args) >= 2:
                out = set()
                from itertools import product
                for combo in product(*args):
                    out.add(max(combo, key=_cmp_order))
                return out
            return ALL
        if isinstance(n, ast.Tuple):
            for e in n.elts:
                self.ev(e, env)
            return ALL
        if isinstance(n, ast.IfExp):
            return self.ev(n.body, env) | self.ev(n.orelse, env)
        return ALL


def rule_divisor_nonzero(ctx):
    r = RuleResult(
        "divisor-nonzero",
        "sign/zero abstract interpretation of threading_choose_num_blocks for size_total >= 0, num_threads >= 1 "
        "and target_block_size of any sign: at every division / divmod the divisor's abstract value excludes 0 "
        "(rounding a positive quotient may yield 0; ceil of 0 is 0)",
    )
    f = ctx.prog.func(CORE, "threading_choose_num_blocks")
    if f.posparams[:3] != ["size_total", "target_block_size", "num_threads"]:
        raise AnalysisError("threading_choose_num_blocks signature changed")
    it = _SignInterp(f.node, {"size_total": {ZERO, POS}, "num_threads": {POS}, "target_block_size": {ZERO, POS, NEG}})
    it.run()
    if it.checked < 2:
        raise AnalysisError("threading_choose_num_blocks: fewer than 2 divisions analysed")
    # target_block_size == 0 is outside the documented domain: report only
    # divisions whose divisor can vanish for a non-zero target
    it2 = _SignInterp(f.node, {"size_total": {ZERO, POS}, "num_threads": {POS}, "target_block_size": {POS, NEG}})
    it2.run()
    seen = set()
    for line, text in it2.zero_div:
        if text in seen:
            continue
        seen.add(text)
        r.bad(Finding("divisor-nonzero", "threading_choose_num_blocks",
                      f"divisor of `{text}` (line {line}) may be 0 for some size_total >= 0, num_threads >= 1, target_block_size != 0",
                      where=f"{f.module.relpath}:{f.lineno}", operand=" ".join(text.split())[:50]))
    for _ in range(it2.checked - len(seen)):
        r.ok("threading_choose_num_blocks[division]", sample={"function": f.qualname, "divisions analysed": it2.checked})
    # threading_get_block_range has no division
    g = ctx.prog.func(CORE, "threading_get_block_range")
    if any(isinstance(n, ast.BinOp) and isinstance(n.op, (ast.Div, ast.FloorDiv, ast.Mod)) for n in ast.walk(g.node)):
        r.skip("threading_get_block_range", "contains a division that is not analysed")
    else:
        r.ok("threading_get_block_range[no division]", nontrivial=False)
    return r


# ----------------------------------------------------------- stride siblings
def rule_stride_siblings(ctx):
    r = RuleResult(
        "stride-siblings",
        "every kernel of quimb/operator/configcore.py with (world_size, world_rank) loops `for ci in "
        "range(world_rank, D, world_size)` exactly once with D the sector size computed in that kernel; the "
        "dispatchers forward (world_size, world_rank) unchanged to the kernel of each symmetry; the launchers "
        "in quimb/operator/builder.py submit world_rank=i for i in range(world_size) with the same world_size, "
        "and the parallel matvec gives each rank its own output row",
    )
    m = ctx.prog.module("quimb.operator.configcore")
    ks = [f for f in m.functions.values() if "world_rank" in f.params and "world_size" in f.params]
    r.floor(len(ks), 10, "strided kernels / dispatchers in configcore.py")
    nloops = 0
    for f in ks:
        where = f"{m.relpath}:{f.lineno}"
        loops = [n for n in ast.walk(f.node) if isinstance(n, ast.For) and isinstance(n.iter, ast.Call) and dotted(n.iter.func) == "range"
                 and any(isinstance(x, ast.Name) and x.id in ("world_rank", "world_size") for x in ast.walk(n.iter))]
        calls = [n for n in ast.walk(f.node) if isinstance(n, ast.Call) and any(
            isinstance(a, ast.Name) and a.id in ("world_rank", "world_size") for a in list(n.args) + [k.value for k in n.keywords])]
        if loops:
            nloops += 1
            if len(loops) != 1:
                r.bad(Finding("stride-siblings", f.qualname, "more than one strided loop", where=where, operand="loops"))
                continue
            a = [src_of(x) for x in loops[0].iter.args]
            if len(a) == 3 and a[0] == "world_rank" and a[2] == "world_size":
                # D must be assigned in this kernel
                dname = a[1]
                assigned = any(isinstance(n, ast.Assign) and any(isinstance(t, ast.Name) and t.id == dname for t in n.targets) for n in ast.walk(f.node))
                if assigned:
                    r.ok(f.qualname, sample={"kernel": f.qualname, "loop": src_of(loops[0].iter)})
                else:
                    r.bad(Finding("stride-siblings", f.qualname, f"stride bound `{dname}` is not computed in the kernel", where=where, operand="bound"))
            else:
                r.bad(Finding("stride-siblings", f.qualname, f"strided loop is range({', '.join(a)}), expected range(world_rank, D, world_size)", where=where, operand="range"))
        elif calls:
            # dispatcher: every call that mentions them must pass both, in the callee's order
            bad = False
            for c in calls:
                callee = ctx.prog.lookup(m, dotted(c.func) or "")
                names = [a.id for a in c.args if isinstance(a, ast.Name)]
                kwn = {k.arg: src_of(k.value) for k in c.keywords if k.arg}
                if hasattr(callee, "posparams"):
                    pos = callee.posparams
                    bound = {}
                    for i, a in enumerate(c.args):
                        if i < len(pos):
                            bound[pos[i]] = src_of(a)
                    bound.update(kwn)
                    if bound.get("world_size") != "world_size" or bound.get("world_rank") != "world_rank":
                        bad = True
                        r.bad(Finding("stride-siblings", f.qualname,
                                      f"call {dotted(c.func)}(...) binds world_size={bound.get('world_size')}, world_rank={bound.get('world_rank')}",
                                      where=where, operand=dotted(c.func) or "call"))
                else:
                    r.skip(f"{f.qualname}->{dotted(c.func)}", "callee not resolved")
            if not bad:
                r.ok(f.qualname, sample={"dispatcher": f.qualname, "forwards": "world_size, world_rank"})
        else:
            r.bad(Finding("stride-siblings", f.qualname, "accepts world_rank/world_size but never uses them (computes everything on every rank)", where=where, operand="unused"))
    r.floor(nloops, 8, "strided loops")
    # launchers
    b = ctx.prog.module("quimb.operator.builder")
    nl = 0
    for g in b.all_functions:
        if isinstance(g.node, ast.Lambda) or g.parent is not None:
            continue
        for s in [n for n in ast.walk(g.node) if isinstance(n, ast.Call) and isinstance(n.func, ast.Attribute) and n.func.attr == "submit"]:
            kwn = {k.arg: k.value for k in s.keywords if k.arg}
            if "world_rank" not in kwn:
                continue
            nl += 1
            comp = None
            for n in ast.walk(g.node):
                if isinstance(n, (ast.ListComp, ast.GeneratorExp)) and any(x is s for x in ast.walk(n)):
                    comp = n.generators[0]
            where = f"{b.relpath}:{g.lineno}"
            # structural: `for <i> in range(<W>)` with world_rank=<i> and world_size=<W> (the same expression)
            good = False
            ivar = None
            if comp is not None and isinstance(comp.target, ast.Name) and isinstance(comp.iter, ast.Call) and dotted(comp.iter.func) == "range" and len(comp.iter.args) == 1:
                ivar = comp.target.id
                W = comp.iter.args[0]
                good = isinstance(kwn["world_rank"], ast.Name) and kwn["world_rank"].id == ivar and "world_size" in kwn and ast.dump(kwn["world_size"]) == ast.dump(W)
            if good:
                r.ok(f"{g.qualname}[launch]", sample={"launcher": g.qualname, "ranks": f"range({src_of(comp.iter.args[0])})"})
            else:
                r.bad(Finding("stride-siblings", g.qualname,
                              f"launcher does not submit world_rank=i for i in range(W) with world_size=W (got { {k: src_of(v) for k, v in kwn.items()} })",
                              where=where, operand="launch"))
            # an output buffer indexed per rank: a two-dimensional scratch array `<buf>[<i>]` (allocated with one row per rank)
            outs = [a for a in list(s.args) + [v for k, v in kwn.items() if k == "out"] if isinstance(a, ast.Subscript) and isinstance(a.value, ast.Name)]
            rowbufs = set()
            if comp is not None and isinstance(comp.iter, ast.Call) and comp.iter.args:
                Wd = ast.dump(comp.iter.args[0])
                for a_ in ast.walk(g.node):
                    if isinstance(a_, ast.Assign) and len(a_.targets) == 1 and isinstance(a_.targets[0], ast.Name) and isinstance(a_.value, ast.Call):
                        shp = next((k.value for k in a_.value.keywords if k.arg == "shape"), None)
                        if isinstance(shp, ast.Tuple) and shp.elts and ast.dump(shp.elts[0]) == Wd:
                            rowbufs.add(a_.targets[0].id)
            for o in outs:
                if o.value.id in rowbufs:
                    if isinstance(o.slice, ast.Name) and o.slice.id == ivar:
                        r.ok(f"{g.qualname}[own row]")
                    else:
                        r.bad(Finding("stride-siblings", g.qualname, f"ranks do not write to their own output row (out={src_of(o)})", where=where, operand="row"))
    r.floor(nl, 2, "parallel launchers in builder.py")
    return r


# ---------------------------------------------------------------------------
# accumulating kernels need a zeroed target
# ---------------------------------------------------------------------------

def _accumulating_params(ctx, modname):
    """{function name: set of parameter names the function only ever accumulates into (p[...] += ...),
    directly or by handing p to another accumulating function of the module}."""
    mod = ctx.prog.modules.get(modname)
    if mod is None:
        raise AnalysisError(f"module {modname} not found")
    acc = {}
    funcs = {f.name: f for f in mod.all_functions if f.parent is None and not f.is_alias and not isinstance(f.node, ast.Lambda)}
    changed = True
    while changed:
        changed = False
        for name, f in funcs.items():
            for p in f.params:
                if p in acc.get(name, set()):
                    continue
                direct = any(isinstance(x, ast.AugAssign) and isinstance(x.op, ast.Add) and isinstance(x.target, ast.Subscript)
                             and isinstance(x.target.value, ast.Name) and x.target.value.id == p for x in ast.walk(f.node))
                plain = any(isinstance(x, ast.Assign) and any(isinstance(t, ast.Subscript) and isinstance(t.value, ast.Name) and t.value.id == p for t in x.targets) for x in ast.walk(f.node))
                via = False
                for c in ast.walk(f.node):
                    if isinstance(c, ast.Call) and isinstance(c.func, ast.Name) and c.func.id in funcs:
                        callee = funcs[c.func.id]
                        pos = list(callee.posparams)
                        for k, a in enumerate(c.args):
                            if isinstance(a, ast.Name) and a.id == p and k < len(pos) and pos[k] in acc.get(callee.name, set()):
                                via = True
                        for kw in c.keywords:
                            if isinstance(kw.value, ast.Name) and kw.value.id == p and kw.arg in acc.get(callee.name, set()):
                                via = True
                if (direct or via) and not plain:
                    acc.setdefault(name, set()).add(p)
                    changed = True
    return acc, funcs


def rule_accumulator_initialised(ctx):
    r = RuleResult(
        "accumulator-initialised",
        "the matrix-free kernels of quimb/operator/configcore.py only ever accumulate into their output (out[j] += ...): every "
        "array handed to them as that output — directly, or row-wise through pool.submit — is, on every path, created by "
        "zeros / zeros_like in the calling function or fully zeroed there before the call; an array that arrives from the "
        "caller or from a cache, or is zeroed only in part while a later reduction sums all of it, makes the result depend "
        "on what the array held before (serial and threaded forms then disagree)",
    )
    acc, _ = _accumulating_params(ctx, "quimb.operator.configcore")
    if not acc:
        raise AnalysisError("no accumulating kernels found in configcore")
    n = 0
    ZEROS = {"zeros", "zeros_like"}
    for modname in ("quimb.operator.builder", "quimb.operator.hilbertspace", "quimb.operator.models"):
        mod = ctx.prog.modules.get(modname)
        if mod is None:
            continue
        for f in mod.all_functions:
            if f.is_alias or isinstance(f.node, ast.Lambda):
                continue
            sites = []
            for c in ast.walk(f.node):
                if not isinstance(c, ast.Call):
                    continue
                fn = (dotted(c.func) or "").split(".")[-1]
                args = list(c.args)
                kws = {k.arg: k.value for k in c.keywords if k.arg}
                if fn == "submit" and args:
                    fn = (dotted(args[0]) or "").split(".")[-1]
                    args = args[1:]
                if fn not in acc:
                    continue
                callee = ctx.prog.func("quimb.operator.configcore", fn)
                pos = list(callee.posparams)
                for p in acc[fn]:
                    a = kws.get(p)
                    if a is None and p in pos and pos.index(p) < len(args):
                        a = args[pos.index(p)]
                    if a is not None:
                        sites.append((c, fn, p, a))
            for c, fn, p, a in sites:
                n += 1
                base = a
                while isinstance(base, ast.Subscript):
                    base = base.value
                construct = f"{f.qualname}->{fn}[{p}]"
                where = f"{f.module.relpath}:{c.lineno}"
                if not isinstance(base, ast.Name):
                    r.skip(construct, f"target `{src_of(a)}` not followed")
                    continue
                name = base.id
                # every definition of the name in this function
                defs = [x for x in ast.walk(f.node) if isinstance(x, ast.Assign) and any(isinstance(t, ast.Name) and t.id == name for t in x.targets) and x.lineno < c.lineno]
                fresh = [d for d in defs if isinstance(d.value, ast.Call) and (dotted(d.value.func) or "").split(".")[-1] in ZEROS]
                full_zero = [x for x in ast.walk(f.node) if getattr(x, "lineno", 10**9) < c.lineno and (
                    (isinstance(x, ast.Assign) and any(isinstance(t, ast.Subscript) and isinstance(t.value, ast.Name) and t.value.id == name
                                                       and (isinstance(t.slice, ast.Constant) and t.slice.value is Ellipsis or (isinstance(t.slice, ast.Slice) and t.slice.lower is None and t.slice.upper is None))
                                                       for t in x.targets) and const_value(x.value, None) in (0, 0.0))
                    or (isinstance(x, ast.Call) and isinstance(x.func, ast.Attribute) and x.func.attr == "fill" and isinstance(x.func.value, ast.Name) and x.func.value.id == name
                        and x.args and const_value(x.args[0], None) in (0, 0.0))
                )]
                is_param = name in f.params
                other_defs = [d for d in defs if d not in fresh]
                problem = None
                if is_param and not full_zero:
                    # a caller-supplied array: fine only on the paths where it was replaced by a fresh one
                    guarded_fresh = [d for d in fresh]
                    cond_only = all(_under_none_test(f.node, d, name) for d in guarded_fresh) if guarded_fresh else True
                    if cond_only:
                        problem = f"`{name}` can be the caller's own array (only replaced by zeros when it is None): the kernel adds A·x to whatever it holds"
                elif other_defs and not full_zero:
                    problem = f"`{name}` can come from `{src_of(other_defs[0].value)[:50]}` (not a fresh zeros array) and is not fully zeroed before the kernels accumulate into it"
                elif not fresh and not full_zero and not is_param:
                    problem = f"`{name}` is never created by zeros / zeros_like nor fully zeroed in this function"
                if problem:
                    r.bad(Finding("accumulator-initialised", f.qualname, f"{fn}(... {p}={src_of(a)} ...): {problem}", where=where, operand=f"{fn}:{name}"))
                else:
                    r.ok(construct, sample={"caller": f.qualname, "kernel": fn, "target": src_of(a), "initialised by": src_of((fresh or full_zero)[0])[:60] if (fresh or full_zero) else ""})
    r.floor(n, 2, "calls of accumulating kernels")
    return r


def _under_none_test(fnode, stmt, name):
    """is stmt inside an `if <name> is None:` body?"""
    for n in ast.walk(fnode):
        if isinstance(n, ast.If) and any(stmt is x for b in n.body for x in ast.walk(b)):
            t = n.test
            if isinstance(t, ast.Compare) and isinstance(t.left, ast.Name) and t.left.id == name and isinstance(t.ops[0], ast.Is) and const_value(t.comparators[0], 0) is None:
                return True
    return False


def rule_no_nested_pool_wait(ctx):
    r = RuleResult(
        "no-nested-pool-wait",
        "a function that par_reduce runs inside the shared thread pool must not itself submit work to that pool and wait for it (all workers "
        "can be occupied by such waiters: the reduction never returns). For every call `par_reduce(F, ...)` in quimb/core.py the callable F — "
        "followed through functools.partial and the resolved calls of quimb.core — either cannot reach get_thread_pool(), or is bound with "
        "num_threads=1 while maybe_multithread runs its kernel inline for a single thread",
    )
    m = ctx.prog.modules.get("quimb.core")
    if m is None:
        raise AnalysisError("no-nested-pool-wait: quimb.core not found")
    funcs = {f.name: f for f in m.all_functions if f.parent is None and not f.is_alias and not isinstance(f.node, ast.Lambda)}

    def reaches_pool(name, seen=None, depth=0):
        seen = seen or set()
        if name in seen or depth > 5 or name not in funcs:
            return None
        seen.add(name)
        f = funcs[name]
        for c in ast.walk(f.node):
            if isinstance(c, ast.Call):
                cn = (dotted(c.func) or "").split(".")[-1]
                if cn == "get_thread_pool":
                    return [name]
                # callables handed on as arguments (maybe_multithread(kernel, ...)) are run by the callee, not a route to the pool
                sub = reaches_pool(cn, seen, depth + 1)
                if sub:
                    return [name] + sub
        return None

    mm = funcs.get("maybe_multithread")
    inline_single = False
    if mm is not None:
        for st in mm.node.body:
            if isinstance(st, ast.If):
                for cmp_ in ast.walk(st.test):
                    if isinstance(cmp_, ast.Compare) and isinstance(cmp_.left, ast.Name) and cmp_.left.id == "num_threads" and isinstance(cmp_.ops[0], ast.Eq) \
                            and const_value(cmp_.comparators[0], None) == 1 and not any(isinstance(c, ast.Call) and (dotted(c.func) or "").endswith("get_thread_pool") for b in st.body for c in ast.walk(b)):
                        inline_single = True
    n = 0
    for f in funcs.values():
        # locals that may hold par_reduce (reducer = par_reduce if parallel else functools.reduce)
        aliases = {"par_reduce"} | {a.targets[0].id for a in ast.walk(f.node) if isinstance(a, ast.Assign) and len(a.targets) == 1 and isinstance(a.targets[0], ast.Name)
                                    and any(isinstance(y, ast.Name) and y.id == "par_reduce" for y in ast.walk(a.value))}
        for c in ast.walk(f.node):
            if not (isinstance(c, ast.Call) and (dotted(c.func) or "").split(".")[-1] in aliases and c.args):
                continue
            F = c.args[0]
            bound = {}
            target = None
            if isinstance(F, ast.Call) and (dotted(F.func) or "").endswith("partial") and F.args:
                target = dotted(F.args[0])
                bound = {k.arg: k.value for k in F.keywords if k.arg}
            elif isinstance(F, ast.Name):
                target = F.id
            if target is None:
                continue
            if target not in funcs:
                continue   # e.g. operator.add: cannot touch the pool
            n += 1
            route = reaches_pool(target)
            q = f"{f.qualname}->par_reduce({target})"
            if not route:
                r.ok(q, sample={"reducer": target, "reaches the pool": False})
            elif const_value(bound.get("num_threads"), None) == 1 and inline_single:
                r.ok(q, sample={"reducer": target, "route to the pool": " -> ".join(route), "bound": "num_threads=1 (kernel runs inline)"})
            else:
                r.bad(Finding("no-nested-pool-wait", f.qualname,
                              f"`{src_of(c)[:60]}` runs {target} inside the shared pool, and {' -> '.join(route)} -> get_thread_pool() submits to the same pool and waits: "
                              "with as many pending pairs as workers the reduction deadlocks", where=f"{m.relpath}:{c.lineno}", operand=target))
    r.floor(n, 1, "par_reduce calls with a quimb.core reducer")
    return r


_SEED_DEFS = {}
_SEED_DEPTH = [0]


def _seed_sign(e, pos_names):
    """'pos' (>= 1 whenever the function's size parameters are >= 1) / 'zero?' (may be 0) for an integer expression."""
    if isinstance(e, ast.Constant) and isinstance(e.value, (int, float)):
        return "pos" if e.value >= 1 else "zero?"
    if isinstance(e, ast.Name):
        if e.id in pos_names:
            return "pos"
        d = _SEED_DEFS.get(e.id)
        if d is not None and len(d) == 1 and _SEED_DEPTH[0] < 4:
            _SEED_DEPTH[0] += 1
            try:
                return _seed_sign(d[0], pos_names)
            finally:
                _SEED_DEPTH[0] -= 1
        return "zero?"
    if isinstance(e, ast.Subscript):
        return "pos"  # a size looked up in a table (dims[i], pt[n, k]): sizes are taken to be positive, like the parameters
    if isinstance(e, ast.BinOp) and isinstance(e.op, ast.Pow):
        return "pos" if _seed_sign(e.left, pos_names) == "pos" else "zero?"
    if isinstance(e, ast.Call) and isinstance(e.func, ast.Name) and e.func.id == "len":
        return "pos"
    if isinstance(e, ast.Call) and isinstance(e.func, ast.Name) and e.func.id == "max" and e.args:
        return "pos" if any(_seed_sign(a, pos_names) == "pos" for a in e.args) else "zero?"
    if isinstance(e, ast.Call) and isinstance(e.func, ast.Name) and e.func.id == "int" and len(e.args) == 1:
        return _seed_sign(e.args[0], pos_names)
    if isinstance(e, ast.BinOp):
        l, r_ = _seed_sign(e.left, pos_names), _seed_sign(e.right, pos_names)
        if isinstance(e.op, ast.Add):
            return "pos" if "pos" in (l, r_) and not any(isinstance(x, ast.UnaryOp) for x in (e.left, e.right)) else "zero?"
        if isinstance(e.op, (ast.Mult, ast.Pow)):
            return "pos" if l == r_ == "pos" else "zero?"
        return "zero?"  # //, /, -, %, >> ... can reach 0 for positive operands
    return "zero?"


def rule_growth_seed_positive(ctx):
    r = RuleResult(
        "growth-seed-positive",
        "a buffer capacity that grows by multiplication (`cap *= 2` when the write pointer reaches it) can only grow from a value >= 1: "
        "every other definition of the capacity is positive whenever the kernel's size parameters are (sign / zero abstract evaluation: "
        "parameters and positive literals are positive, + and * keep positivity, max(positive, .) restores it; //, -, %, / may reach 0) — "
        "a capacity of 0 doubles to 0 and the kernel writes past an empty buffer (numba does not bounds-check)",
    )
    n = 0
    for m in ctx.prog.modules.values():
        if not (m.name.startswith("quimb.operator") or m.name in ("quimb.core", "quimb.linalg.numbalinalg")):
            continue
        for f in m.all_functions:
            if f.is_alias or isinstance(f.node, ast.Lambda):
                continue
            grown = {}
            for x in ast.walk(f.node):
                if isinstance(x, ast.AugAssign) and isinstance(x.op, (ast.Mult, ast.LShift)) and isinstance(x.target, ast.Name) \
                        and isinstance(x.value, ast.Constant) and isinstance(x.value.value, int) and x.value.value >= 1:
                    grown.setdefault(x.target.id, x)
                if isinstance(x, ast.Assign) and len(x.targets) == 1 and isinstance(x.targets[0], ast.Name) and isinstance(x.value, ast.BinOp) \
                        and isinstance(x.value.op, ast.Mult) and any(isinstance(s_, ast.Name) and s_.id == x.targets[0].id for s_ in (x.value.left, x.value.right)) \
                        and any(isinstance(s_, ast.Constant) for s_ in (x.value.left, x.value.right)):
                    grown.setdefault(x.targets[0].id, x)
            for name, g in grown.items():
                # only capacities: the grown name is compared with a write pointer somewhere
                if not any(isinstance(c, ast.Compare) and any(isinstance(y, ast.Name) and y.id == name for y in ast.walk(c)) for c in ast.walk(f.node)):
                    continue
                seeds = [a for a in ast.walk(f.node) if isinstance(a, ast.Assign) and a is not g and any(isinstance(t, ast.Name) and t.id == name for t in a.targets)]
                if not seeds:
                    continue
                n += 1
                pos_names = set(f.params)
                _SEED_DEFS.clear()
                for a in ast.walk(f.node):
                    if isinstance(a, ast.Assign) and len(a.targets) == 1 and isinstance(a.targets[0], ast.Name) and a.targets[0].id != name:
                        _SEED_DEFS.setdefault(a.targets[0].id, []).append(a.value)
                q = f"{f.qualname}:{name}"
                bad = [a for a in seeds if _seed_sign(a.value, pos_names) != "pos"]
                if bad:
                    a = bad[0]
                    r.bad(Finding("growth-seed-positive", f.qualname,
                                  f"`{src_of(a)[:50]}` seeds the capacity `{name}` that only grows by `{src_of(g)[:20]}` with a value that can be 0 for positive sizes: "
                                  "0 doubles to 0, the buffers stay empty and the next write goes past their end",
                                  where=f"{m.relpath}:{a.lineno}", operand=name))
                else:
                    r.ok(q, sample={"kernel": f.qualname, "capacity": name, "seed": src_of(seeds[0].value)[:30], "growth": src_of(g)[:20]})
    r.floor(n, 4, "multiplicatively grown buffer capacities")
    return r
