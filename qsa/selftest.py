"""Mutation self-check (thorough tier only).

Measures the *checker*, never the repository: a seeded sample of small
source mutations — each breaking one instance of the structure a rule relies
on — is applied in memory (overlay, nothing is written to /repo) and the
property's rules are re-run on the mutated program.  A mutant is *killed* if
the run reports a finding that is not reported on the unmutated tree.
Survivors are listed in the evidence; they do not fail the check.
"""

import random
import re
import warnings
from concurrent.futures import ProcessPoolExecutor

# (name, file regex, line regex, replacement (None = delete line))
MUTATORS = {
    "C01": [
        ("conj mangles inner labels only", r"quimb/tensor/tensor_core\.py$", r"^(\s+)which = oset\(tn\.ind_map\) - tags_to_oset\(output_inds\)\s*$", r"\1which = oset(tn.inner_inds()) - tags_to_oset(output_inds)"),
        ("drop exponent= in contract", r"quimb/tensor/tensor_core\.py$", r"^(\s+)exponent=self\.exponent,\s*$", None),
        ("exponent not added when combining", r"quimb/tensor/tensor_core\.py$", r"^(\s+)self\.exponent = self\.exponent \+ tn\.exponent\s*$", r"\1pass"),
        ("astype drops is_conj", r"quimb/tensor/tensor_core\.py$", r"^(\s+)is_conj=self\.is_conj,\s*$", None),
        ("partition drops exponent", r"quimb/tensor/tensor_core\.py$", r"^(\s+)t1\.exponent = self\.exponent\s*$", None),
        ("partial contraction with default output", r"quimb/tensor/tensor_core\.py$", r"^(\s+)output_inds=local_output_inds,\s*$", None),
        ("contract_tags: default output for a partial contraction", r"quimb/tensor/tensor_core\.py$", r"^(\s+)ix for ix, c in freqs\.items\(\) if \(c == 1\) or \(ix in tn\.ind_map\)\s*$", r"\1ix for ix, c in freqs.items() if (c == 1)"),
        ("contract_tags ignores stored exponent", r"quimb/tensor/tensor_core\.py$", r"^(\s+)exponent = exponent \+ tn\.exponent\s*$", r"\1pass"),
    ],
    "C02": [
        ("foreign map writer", r"quimb/tensor/networking\.py$", r"^def istree\(tn\):\s*$", "def _mutant_writer(tn, tid):\n    tn.ind_map.pop('x', None)\n    tn.tensor_map[tid] = None\n\n\ndef istree(tn):"),
        ("add_tensor forgets to link inds", r"quimb/tensor/tensor_core\.py$", r"^(\s+)self\._link_inds\(T\.inds, tid\)\s*$", None),
        ("pop_tensor forgets remove_owner", r"quimb/tensor/tensor_core\.py$", r"^(\s+)t\.remove_owner\(self\)\s*$", None),
        ("copy aliases inner set", r"quimb/tensor/tensor_core\.py$", r"^(\s+)self\._inner_inds = ts\._inner_inds\.copy\(\)\s*$", r"\1self._inner_inds = ts._inner_inds"),
        ("unlink keeps outer", r"quimb/tensor/tensor_core\.py$", r"^(\s+)self\._outer_inds\.discard\(ind\)\s*$", None),
    ],
    "C03": [
        ("hand-over without alignment", r"quimb/tensor/tensor_core\.py$", r"^(\s+)tb_compressed\.transpose_like_\(tb\)\s*$", None),
        ("idiom -> alias", r"quimb/tensor/.*\.py$", r"^(\s+)(\w+) = (\w+) if inplace else \3\.copy\(\)\s*$", r"\1\2 = \3"),
        ("derived cache not reset", r"quimb/tensor/tnag/core\.py$", r"^(\s+)self\._(site_tag_set|site_tags|site_inds|upper_inds|lower_inds) = None\s*$", None, r"^(site_tag_id|site_ind_id|upper_ind_id|lower_ind_id)$"),
        ("alias bound to other method", r"quimb/tensor/tensor_core\.py$", r"^(\s+)retag_ = functools\.partialmethod\(retag, inplace=True\)\s*$", r"\1retag_ = functools.partialmethod(reindex, inplace=True)"),
    ],
    "C04": [
        ("fused gauge skips indices without an entry", r"quimb/tensor/tensor_core\.py$", r"^(\s+)else do\(\"ones\", ts\[0\]\.ind_size\(ix\), like=ts\[0\]\.data\)\s*$", r"\1else None", r"^tensor_multifuse$"),
        ("anti-diagonal pass flips the untested index", r"quimb/tensor/tensor_core\.py$", r"^(\s+)ix_flip = ix_i\s*$", r"\1ix_flip = ix_j", r"^antidiag_gauge$"),
        ("column reduce cuts output indices", r"quimb/tensor/tensor_core\.py$", r"^(\s+)if ind in output_inds:\s*$", r"\1if False:", r"^column_reduce$"),
        ("isometrize flags the requested side whatever the shape", r"quimb/tensor/tensor_core\.py$", r"^(\s+)if x\.shape\[0\] < x\.shape\[1\]:\s*$", r"\1if False:", r"^isometrize$"),
        ("merged index collapsed on one tensor only", r"quimb/tensor/tensor_core\.py$", r"^(\s+)tx\.collapse_repeated_\(\)\s*$", r"\1pass"),
        ("gauge applied conditioned, recorded raw", r"quimb/tensor/tensor_core\.py$", r"^(\s+)t\.multiply_index_diagonal_\(ix, g\)\s*$", r"\1t.multiply_index_diagonal_(ix, g ** 1.0)", r"^gauge_simple_insert$"),
        ("idiom -> alias (rewrites)", r"quimb/tensor/tensor_core\.py$", r"^(\s+)(\w+) = (\w+) if inplace else \3\.copy\(\)\s*$", r"\1\2 = \3",
         r"^_?(gauge_|canonize|equalize_norms|balance_bonds|fuse_multibonds|squeeze|rank_simplify|diagonal_reduce|antidiag_gauge|column_reduce|split_simplify|pair_simplify|loop_simplify|full_simplify|hyperinds_resolve|compress|insert_gauge|isometrize|unitize|normalize|randomize|expand_bond|astype)"),
        ("modify keeps flag on data", r"quimb/tensor/tensor_core\.py$", r"^(\s+)self\._left_inds = None\s*$", None),
        ("strip_exponent forgets exponent", r"quimb/tensor/tensor_core\.py$", r"^(\s+)self\.exponent = self\.exponent \+ do\(\"log10\", stripped_factor\)\s*$", r"\1pass"),
    ],
    "C05": [
        ("fixed-form driver judged by requested absorb", r"quimb/tensor/decomp\.py$", r"^(\s+)if \"absorb\" not in inspect\.signature\(_SPLIT_FNS\[method\]\)\.parameters:\s*$", r"\1if False:", r"^parse_split_left_right_isom$"),
        ("dense fall-back drops renorm", r"quimb/tensor/decomp\.py$", r"^(\s+)x, cutoff, cutoff_mode, max_bond, absorb, renorm\s*$", r"\1x, cutoff, cutoff_mode, max_bond, absorb"),
        ("isometry flag ignores the shape", r"quimb/tensor/tensor_core\.py$", r"^(\s+)left_isom = left\.shape\[-1\] <= prod\(left_dims\)\s*$", r"\1pass"),
        ("eigh keeps signed values", r"quimb/tensor/decomp\.py$", r"^(\s+)s = (xp|np)\.abs\(s\)\s*$", r"\1pass", r"^eigh_truncated"),
        ("numba absorb left<->right", r"quimb/tensor/decomp\.py$", r"^(\s+)return U, None, ldmul_numba\(s, VH\)\s*$", r"\1return rdmul_numba(U, s), None, VH"),
        ("power for sum1 modes", r"quimb/tensor/decomp\.py$", r"^(\s+)pow = 1\s*$", r"\1pow = 2"),
        ("sentinel != -1", r"quimb/tensor/decomp\.py$", r"^(\s+)if max_bond > 0:\s*$", r"\1if max_bond != -1:"),
        ("isom table", r"quimb/tensor/decomp\.py$", r"^(\s+)left_isom = absorb in \(get_U_s_VH, get_U_sVH, get_U\)\s*$", r"\1left_isom = absorb in (get_U_s_VH, get_Us_VH, get_U)"),
        ("untyped memo", r"quimb/tensor/decomp\.py$", r"^@functools\.lru_cache\(maxsize=None, typed=True\)\s*$", r"@functools.cache"),
        ("alias of None not normalised", r"quimb/tensor/tensor_core\.py$", r"^(\s+)if isinstance\(absorb, str\) and \(_ABSORB_MAP\.get\(absorb, absorb\) is None\):\s*$", r"\1if False:"),
        ("capped spectrum before cutoff", r"quimb/tensor/decomp\.py$", r"^(\s{12,})max_bond=-1,\s*$", r"\1max_bond=max_bond,"),
        ("lower clamp", r"quimb/tensor/decomp\.py$", r"^(\s+)return max\(n_chi, 1\)\s*$", r"\1return n_chi"),
    ],
    "C06": [
        ("gate MPO with default tags", r"quimb/tensor/tn1d/core\.py$", r"^(\s+)site_tag_id=self\.site_tag_id,\s*$", None, r"^gate_nonlocal$"),
        ("gate MPO with its own cutoff", r"quimb/tensor/tn1d/core\.py$", r"^(\s+)from_dense_opts\[\"cutoff\"\] = compress_opts\[\"cutoff\"\]\s*$", r"\1pass"),
        ("idiom -> alias (gates)", r"quimb/tensor/(gating|tnag/core|tn1d/core)\.py$", r"^(\s+)(\w+) = (\w+) if inplace else \3\.copy\(\)\s*$", r"\1\2 = \3", r"gate|apply"),
        ("drop transpose", r"quimb/tensor/(gating|tnag/core|tn1d/core)\.py$", r"^(\s+)transpose=transpose,\s*$", None),
        ("literal bond name", r"quimb/tensor/gating\.py$", r"^(\s+)tnG_spat = TG\.split\(\(\"l0\", \"r0\"\), bond_ind=bix, \*\*compress_opts\)\s*$", r'\1tnG_spat = TG.split(("l0", "r0"), bond_ind="bond", **compress_opts)'),
        ("attach without reindex", r"quimb/tensor/gating\.py$", r"^(\s+)tn\.reindex_\(reindex_map\)\s*$", None),
    ],
    "C07": [
        ("permuted sites sorted, operator not", r"quimb/tensor/circuit/mps\.py$", r"^(\s+)where = tuple\(self\.qubits\.index\(w\) for w in where\)\s*$", r"\1where = tuple(sorted(self.qubits.index(w) for w in where))", r"^local_expectation$"),
        ("copy forgets the lazily created counter", r"quimb/tensor/circuit/core\.py$", r"^(\s+)new\._marginal_storage_size = getattr\(self, \"_marginal_storage_size\", 0\)\s*$", None),
        ("tags into the wrong constructor slot", r"quimb/tensor/circuit/exact\.py$", r"^(\s+)super\(\)\.__init__\(N, psi0, gate_opts, tags=tags, \*\*circuit_opts\)\s*$", r"\1super().__init__(N, psi0, gate_opts, tags, **circuit_opts)"),
        ("drop staleness check", r"quimb/tensor/circuit/(exact|mps)\.py$", r"^(\s+)self\._maybe_init_storage\(\)\s*$", None,
         # (these four only reach the caches through callees that carry their own guard: dropping theirs changes nothing)
         r"^(?!amplitude$|compute_marginal$|sample_rehearse$|sample_chaotic_rehearse$)"),
        ("drop clear_storage", r"quimb/tensor/circuit/(core|mps)\.py$", r"^(\s+)self\.clear_storage\(\)\s*$", None),
    ],
    "C08": [
        ("swap record not widened", r"quimb/tensor/tn1d/core\.py$", r"^(\s+)info\[\"cur_orthog\"\] = \(i, j\)\s*$", r"\1pass", r"^swap_sites_with_compress$"),
        ("drop info=info", r"quimb/tensor/tn1d/core\.py$", r"^(\s+.*)\binfo=info, (.*)$", r"\1\2"),
        ("drop record store", r"quimb/tensor/tn1d/core\.py$", r"^(\s+)info\[\"cur_orthog\"\] = .*$", r"\1pass",
         # (the operator 'sandwich' variant re-centres a record its callee was already handed; the record discipline of MPOs is not modelled)
         r"^(?!gate_sandwich_with_auto_swap$)"),
        ("drop fork", r"quimb/tensor/tn1d/core\.py$", r"^(\s+)info = info\.copy\(\)\s*$", r"\1pass"),
        ("swap: left records right site", r"quimb/tensor/tn1d/core\.py$", r"^(\s+)info\[\"cur_orthog\"\] = \(i, i\)\s*$", r'\1info["cur_orthog"] = (j, j)'),
        ("swap: factors written to the other site", r"quimb/tensor/tn1d/core\.py$", r"^(\s+)Ti\.modify\(data=sTi\.data\)\s*$", r"\1Tj.modify(data=sTi.data)"),
        ("auto swap: absorb on the wrong side", r"quimb/tensor/tn1d/core\.py$", r"^(\s+)absorb = \"left\"\s*$", r'\1absorb = "right"'),
        ("auto swap: record one site early", r"quimb/tensor/tn1d/core\.py$", r"^(\s+)info\[\"cur_orthog\"\] = \(i \+ 1, i \+ 1\)\s*$", r'\1info["cur_orthog"] = (i, i)'),
        ("submpo: ends swapped", r"quimb/tensor/tn1d/core\.py$", r"^(\s+)info\[\"cur_orthog\"\] = \(sf, sf\)\s*$", r'\1info["cur_orthog"] = (si, si)'),
    ],
    "C09": [
        ("axes list enumerates the given layout (inverse permutation)", r"quimb/tensor/tn1d/core\.py$", r"^(\s+)order = \[shape_given\.index\(x\) for x in shape_desired\]\s*$", r"\1order = [shape_desired.index(x) for x in shape_given]", r"^__init__$"),
        ("MPS stores the number of arrays", r"quimb/tensor/tn1d/core\.py$", r"^(\s+)self\._L = L\s*$", r"\1self._L = len(arrays)", r"^__init__$"),
        ("MPO chain closed at L", r"quimb/tensor/tn1d/core\.py$", r"^(\s+)if \(i \+ 1\) < num_sites or cyclic:\s*$", r"\1if (i + 1) < L or cyclic:", r"^from_fill_fn$"),
        ("identity MPO forgets L", r"quimb/tensor/tensor_builder\.py$", r"^(\s+)mpo_opts\[\"L\"\] = L\s*$", None),
        ("direct product keeps the isometry flag", r"quimb/tensor/tensor_core\.py$", r"^(\s+)new_T\.modify\(data=new_data\)\s*$", r"\1new_T.modify(data=new_data, left_inds=T1.left_inds)"),
        ("drop cap", r"quimb/tensor/tn1d/(compress|core)\.py$", r"^(\s+)max_bond=max_bond,\s*$", None),
        ("drop cutoff", r"quimb/tensor/tn1d/(compress|core)\.py$", r"^(\s+)cutoff=cutoff,\s*$", None),
        ("idiom -> alias (1d)", r"quimb/tensor/tn1d/compress\.py$", r"^(\s+)(\w+) = (\w+) if inplace else \3\.copy\(\)\s*$", r"\1\2 = \3"),
        ("fit memory never updated", r"quimb/tensor/tn1d/compress\.py$", r"^(\s+)old_direction = next_direction\s*$", r"\1pass"),
        ("fit memory updated before sweep", r"quimb/tensor/tn1d/compress\.py$", r"^(\s+)next_direction = next\(sweeps\)\s*$", r"\1next_direction = next(sweeps)\n\1old_direction = next_direction"),
    ],
    "C10": [
        ("two-site split without renormalisation", r"quimb/tensor/tn1d/dmrg\.py$", r"^(\s+)renorm=True,\s*$", None),
        ("bond expansion keeps the skip licence", r"quimb/tensor/tn1d/dmrg\.py$", r"^(\s+)canonize = True\s*$", r"\1pass"),
        ("two-site update claims isometry", r"quimb/tensor/tn1d/dmrg\.py$", r"^(\s+)self\._k\[i\]\.modify\(data=L, inds=\(\*uix_L, u_bond_ind\)\)\s*$", r"\1self._k[i].modify(data=L, inds=(*uix_L, u_bond_ind), left_inds=uix_L)"),
        ("drop bra update", r"quimb/tensor/tn1d/dmrg\.py$", r"^(\s+)self\._b\[[^\]]+\]\.modify\(.*\)\s*$", None),
        ("bra without conj", r"quimb/tensor/tn1d/dmrg\.py$", r"^(\s+self\._b\[[^\]]+\]\.modify\(data=\w+)\.conj\(\)(.*)$", r"\1\2"),
        ("drop bra=", r"quimb/tensor/tn1d/(dmrg|core)\.py$", r"^(\s+)bra=(bra|self\._b),\s*$", None),
        ("sweep memory from sequence", r"quimb/tensor/tn1d/dmrg\.py$", r"^(\s+)previous_direction = direction\s*$", r"\1previous_direction = sweep_sequence[0]"),
        ("sweep memory seeded from outside", r"quimb/tensor/tn1d/dmrg\.py$", r"^(\s+)previous_direction = \"0\"\s*$", r"\1previous_direction = sweep_sequence[-1]"),
    ],
    "C11": [
        ("trotter half", r"quimb/tensor/tnag/tebd\.py$", r"^(\s+)\*\(\(k, 0\.5\) for k in range\(nlayers - 1\)\),\s*$", r"\1*((k, 0.25) for k in range(nlayers - 1)),"),
        ("suzuki weight", r"quimb/tensor/tnag/tebd\.py$", r"^(\s+)s = 1 / \(4 - 4 \*\* \(1 / 3\)\)\s*$", r"\1s = 1 / (4 - 4 ** (1 / 2))"),
        ("stale cache", r"quimb/tensor/tnag/tebd\.py$", r"^(\s+)self\._op_cache\.clear\(\)\s*$", None),
        ("time not advanced", r"quimb/tensor/tn1d/tebd\.py$", r"^(\s+)self\.t \+= dt\s*$", r"\1self.t += self._dt"),
        ("reverse pair not flipped", r"quimb/tensor/tnag/tebd\.py$", r"^(\s+)G = self\._flip_cached\(G\)\s*$", r"\1pass"),
        ("boundary gate on sorted pair", r"quimb/tensor/tn1d/tebd\.py$", r"^(\s+)U, where=sites, absorb=\"left\", \*\*self\.split_opts\s*$", r'\1U, where=(0, self.L - 1), absorb="left", **self.split_opts'),
    ],
    "C12": [
        ("environment stored as a live view", r"quimb/tensor/(tn2d|tn3d)/core\.py$", r"^(\s+)(.*)tn\.select(_any)?\((.*), virtual=False\)\s*$", r"\1\2tn.select\3(\4)", r"^(_compute_plane_envs|compute_environments)$"),
        ("whole working network equalized while environments are stored", r"quimb/tensor/tn2d/core\.py$", r"^(\s+)tn_boundary\.equalize_norms_\(equalize_norms\)\s*$", r"\1tn.equalize_norms_(equalize_norms)"),
        ("skip predicate looks at one tensor only", r"quimb/tensor/tensor_core\.py$", r"^(\s+)and \(len\(tn\._get_neighbor_tids\(\[tid2\]\)\) <= 2\)\s*$", r"\1and (len(tn._get_neighbor_tids([tid1])) <= 2)"),
        ("canonize options not handed on", r"quimb/tensor/tensor_core\.py$", r"^(\s+)canonize_opts=canonize_opts,\s*$", None, r"^_contract_around_tids$"),
        ("drop cap (boundary)", r"quimb/tensor/(tn2d/core|tn3d/core|tnag/compress|tensor_core)\.py$", r"^(\s+)max_bond=max_bond,\s*$", None),
        ("drop cutoff (boundary)", r"quimb/tensor/(tn2d/core|tn3d/core|tnag/compress|tensor_core)\.py$", r"^(\s+)cutoff=cutoff,\s*$", None),
        ("guard flipped", r"quimb/tensor/(tn2d|tn3d)/core\.py$", r"^(\s+)if bonds_size\(t1, tn\) > max_bond:\s*$", r"\1if bonds_size(t1, tn) < max_bond:"),
        ("skip guard flipped", r"quimb/tensor/tn2d/core\.py$", r"^(\s+)<= max_bond\s*$", r"\1> max_bond"),
        ("shortcut QR of the larger tensor", r"quimb/tensor/tensor_core\.py$", r"^(\s+)compress_absorb = \"right\" if lsize <= rsize else \"left\"\s*$", r'\1compress_absorb = "left" if lsize <= rsize else "right"'),
        ("shortcut direction from option", r"quimb/tensor/tensor_core\.py$", r"^(\s+)compress_absorb = \"right\" if lsize <= rsize else \"left\"\s*$", r'\1compress_absorb = absorb if absorb != "both" else "right"'),
    ],
    "C13": [
        ("axis lists built from the sorted sites", r"quimb/tensor/tn1d/core\.py$", r"^(\s+)kix = \[self\.site_ind\(i\) for i in where\]\s*$", r"\1srt_ = sorted(where)\n\1kix = [self.site_ind(i) for i in srt_]", r"^partial_trace_to_dense_canonical$"),
        ("drop normalized", r"quimb/tensor/(tnag/core|tn1d/core|tn2d/core|tn3d/core)\.py$", r"^(\s+)normalized=normalized,\s*$", None),
        ("environment stored without its exponent", r"quimb/tensor/tn2d/core\.py$", r"^(\s+)tn_env_i\.exponent = tn\.exponent - exponent0\s*$", None),
        ("sites via a set", r"quimb/tensor/tnag/core\.py$", r"^(\s+)k_inds = tuple\(map\(self\.site_ind, keep\)\)\s*$", r"\1keep = frozenset(keep)\n\1k_inds = tuple(map(self.site_ind, keep))"),
        ("cache key without where", r"quimb/tensor/tnag/core\.py$", r"^(\s+)info\[\"expecs\"\]\[loop, where\] = expec_loop, norm_loop\s*$", r'\1info["expecs"][loop] = expec_loop, norm_loop'),
        ("cluster forgets exponent", r"quimb/tensor/tnag/core\.py$", r"^(\s+)k\.exponent = self\.exponent\s*$", None),
        ("unnormalised value not rescaled", r"quimb/tensor/(tn1d|tn2d|tn3d)/core\.py$", r"^(\s+)(rho|x|expec_ij) = (rho|x|expec_ij) \* 10 \*\* \(2 \* self\.exponent\)\s*$", r"\1pass"),
        ("singular values not rescaled", r"quimb/tensor/tn1d/core\.py$", r"^(\s+)svals = svals \* 10 ?\*\* ?self\.exponent\s*$", r"\1pass"),
        ("3D cluster forgets exponent", r"quimb/tensor/tn3d/core\.py$", r"^(\s+)k\.exponent = self\.exponent\s*$", None),
        ("drop rehearse", r"quimb/tensor/(tnag/core|tn1d/core|tn2d/core|tn3d/core)\.py$", r"^(\s+)rehearse=rehearse,\s*$", None),
    ],
    "C14": [
        ("converged without comparing a change", r"quimb/tensor/belief_propagation/bp_common\.py$", r"^(\s+)self\.converged \|= max_mdiff < tol_abs\s*$", r"\1self.converged |= not self.touched", r"^run$"),
        ("marginal output chosen by danglingness, not by the query", r"quimb/tensor/belief_propagation/d2bp\.py$", r"^(\s+)if jx == ind:\s*$", r"\1if jx in self.output_inds:", r"^compute_marginal$"),
        ("pair normalised by magnitude only", r"quimb/tensor/belief_propagation/bp_common\.py$", r"^(\s+)return mi / \(sij \* nij \* nii / njj\), mj / \(nij \* njj / nii\)\s*$", r"\1return mi / (nij * nii / njj), mj / (nij * njj / nii)"),
        ("loop expansion without single tensor regions", r"quimb/tensor/belief_propagation/(hd1bp|d1bp|d2bp)\.py$", r"^(\s+)itertools\.chain\(gloops, \(\(tid,\) for tid in self\.tn\.tensor_map\)\)(,?)\s*$", r"\1gloops\2"),
        ("scalar tensors dropped from the batched value", r"quimb/tensor/belief_propagation/hv1bp\.py$", r"^(\s+)if t\.ndim == 0:\s*$", r"\1if False:"),
        ("message pair normalisation keeps the memo", r"quimb/tensor/belief_propagation/d2bp\.py$", r"^(\s+)self\._messages_conditioned\.pop\(\(ix, tida\), None\)\s*$", None, r"^normalize_message_pairs$"),
        ("route forgets exponent", r"quimb/tensor/belief_propagation/\w+\.py$", r"^(\s+)exponent=self\.exponent,\s*$", None),
        ("unit mismatch", r"quimb/tensor/belief_propagation/(l2bp|d1bp|hd1bp)\.py$", r"^(\s+)exponent=self\.exponent( \* 2)?,\s*$", lambda m: m.group(1) + ("exponent=self.exponent," if m.group(2) else "exponent=self.exponent * 2,")),
        ("right message not transposed (d2bp)", r"quimb/tensor/belief_propagation/d2bp\.py$", r"^(\s+)mr_raw = self\.messages\[ix, tida\]\.T\s*$", r"\1mr_raw = self.messages[ix, tida]"),
        ("right message not transposed (l2bp)", r"quimb/tensor/belief_propagation/l2bp\.py$", r"^(\s+)mr = ar\.reshape\(tmr\.data, \(dm, dm\)\)\.T\s*$", r"\1mr = ar.reshape(tmr.data, (dm, dm))"),
        ("left message transposed", r"quimb/tensor/belief_propagation/d2bp\.py$", r"^(\s+)ml_raw = self\.messages\[ix, tidb\]\s*$", r"\1ml_raw = self.messages[ix, tidb].T"),
        ("batched route forgets exponent", r"quimb/tensor/belief_propagation/hv1bp\.py$", r"^(\s+)exponent = self\.exponent\s*$", r"\1exponent = 0.0"),
        ("bp constructor aliases tn", r"quimb/tensor/belief_propagation/bp_common\.py$", r"^(\s+)self\.tn = tn if inplace else tn\.copy\(\)\s*$", r"\1self.tn = tn"),
    ],
    "C15": [
        ("dims of the twice-permuted layout", r"quimb/core\.py$", r"^(\s+)return permute\(b, dims_cur, ip\)\s*$", r"\1return permute(b, dims[ip], ip)", r"^pkron$"),
        ("parallel reduction pairs in reverse", r"quimb/core\.py$", r"^(\s+)paired_x = partition_all\(2, x\)\s*$", r"\1paired_x = tuple(partition_all(2, x))[::-1]"),
        ("reduction folds pairs backwards", r"quimb/core\.py$", r"^(\s+)return fn\(\*x\)\s*$", r"\1return fn(*x[::-1])"),
        ("ownership dropped from keyword dict", r"quimb/gen/operators\.py$", r"^(\s+)\"ownership\": ownership,\s*$", None),
        ("ownership dropped", r"quimb/(core|gen/operators)\.py$", r"^(\s+)ownership=ownership,\s*$", None),
        ("sibling arguments swapped", r"quimb/core\.py$", r"^(\s+)return _permute_sparse\(p, dims, perm\)\s*$", r"\1return _permute_sparse(p, perm, dims)"),
        ("sparse expectation roles", r"quimb/core\.py$", r"^(\s+)\(0, 1, 1\): realify\(lambda a, b: dot\(dag\(a\), dot\(b, a\)\)\[0, 0\]\),\s*$", r"\1(0, 1, 1): realify(lambda a, b: dot(dag(b), dot(a, b))[0, 0]),"),
        ("range not rejected", r"quimb/core\.py$", r"^(\s+)raise ValueError\(f\"Ownership \(\{ri\}, \{rf\}\) not in range \[0-\{D\}\]\.\"\)\s*$", r"\1pass"),
    ],
    "C16": [
        ("buffer capacity seeded with a share of the size", r"quimb/operator/configcore\.py$", r"^(\s+)buf_size = D\s*$", r"\1buf_size = D // world_size"),
        ("parallel reduction pairs in reverse", r"quimb/core\.py$", r"^(\s+)paired_x = partition_all\(2, x\)\s*$", r"\1paired_x = tuple(partition_all(2, x))[::-1]"),
        ("reduction folds pairs backwards", r"quimb/core\.py$", r"^(\s+)return fn\(\*x\)\s*$", r"\1return fn(*x[::-1])"),
        ("running row counter across blocks", r"quimb/core\.py$", r"^(\s+)ia, ib = divmod\(i, p\)\s*$", r"\1ib += 1"),
        ("every thread does all blocks", r"quimb/core\.py$", r"^(\s+)for b in range\(thread_rank, num_blocks, num_threads\):\s*$", r"\1for b in range(num_blocks):"),
        ("no lower clamp", r"quimb/core\.py$", r"^(\s+)num_blocks = max\(num_blocks, 1\)\s*$", None),
        ("futures unobserved", r"quimb/core\.py$", r"^(\s+)future\.result\(\)\s*$", r"\1pass"),
        ("rows from the vector length", r"quimb/core\.py$", r"^(\s+)N = out\.size\s*$", r"\1N = vec.size"),
        ("serial out not cleared", r"quimb/operator/builder\.py$", r"^(\s+)out\[\.\.\.\] = 0\.0\s*$", r"\1pass"),
        ("thread buffers uninitialised", r"quimb/operator/builder\.py$", r"^(\s+)out_i = np\.zeros_like\(x, dtype=dtype, shape=\(world_size, x\.size\)\)\s*$", r"\1out_i = np.empty_like(x, dtype=dtype, shape=(world_size, x.size))"),
        ("stride ignores rank", r"quimb/operator/configcore\.py$", r"^(\s+)for ci in range\(world_rank, D, world_size\):\s*$", r"\1for ci in range(0, D, world_size):"),
    ],
    "C17": [
        ("adjoint without conjugation", r"quimb/linalg/base_linalg\.py$", r"^(\s+)return np\.conj\(self\.factor\) \* vec\s*$", r"\1return self.factor * vec"),
        ("setting from wrong name", r"quimb/linalg/base_linalg\.py$", r"^(\s+)\"return_vecs\": return_vecs,\s*$", r'\1"return_vecs": True,'),
        ("dense table", r"quimb/linalg/numpy_linalg\.py$", r"^(\s+)\(True, False, False\): nla\.eigvalsh,\s*$", r"\1(True, False, False): nla.eigvals,"),
        ("values sorted without vectors", r"quimb/linalg/numpy_linalg\.py$", r"^(\s+)lk, vk = lk\[so\], vk\[:, so\]\s*$", r"\1lk = lk[so]"),
        ("scipy sort without vectors", r"quimb/linalg/scipy_linalg\.py$", r"^(\s+)lk, vk = lk\[sortinds\], vk\[:, sortinds\]\s*$", r"\1lk = lk[sortinds]"),
        ("selector returns positions", r"quimb/linalg/numpy_linalg\.py$", r"^(\s+)return np\.argsort\(_SORT_FUNCS\[method\.upper\(\)\]\(a\)\)\s*$", r"\1if method.upper() == 'SA':\n\1    return np.arange(a.size)\n\1return np.argsort(_SORT_FUNCS[method.upper()](a))"),
    ],
    "C18": [
        ("updater forgets the clock", r"quimb/evo\.py$", r"^(\s+)self\._t = t\s*$", r"\1pass"),
        ("expm ignores kind", r"quimb/evo\.py$", r"^(\s+)self\._update_method = self\._update_to_expm_dop\s*$", r"\1self._update_method = self._update_to_expm_ket"),
        ("callback before state", r"quimb/evo\.py$", r"^(\s+)self\._t = t\s*$", None),
        ("inner dagger -> transpose", r"quimb/evo\.py$", r"^(\s+)dag\(x\),\s*$", r"\1x.T,"),
        ("solved dop: phases not conjugated", r"quimb/evo\.py$", r"^(\s+)lvpvl = rdmul\(ldmul\(lt, self\.pe0\), lt\.conj\(\)\)\s*$", r"\1lvpvl = rdmul(ldmul(lt, self.pe0), lt)"),
        ("solved dop: transpose of eigenvectors", r"quimb/evo\.py$", r"^(\s+)self\._pt = evecs @ \(lvpvl @ dag\(evecs\)\)\s*$", r"\1self._pt = evecs @ (lvpvl @ evecs.T)"),
        ("callback state rescaled", r"quimb/evo\.py$", r"^(\s+)pt = qarray\(y\.reshape\(self\._d, -1\)\)\s*$", r"\1pt = qarray(y.reshape(self._d, -1)) / 2"),
        ("integrator starts at 0", r"quimb/evo\.py$", r"^(\s+)self\._p0\.toarray\(\)\.reshape\(-1\), self\.t0\s*$", r"\1self._p0.toarray().reshape(-1), 0.0"),
        ("ket key gets dop equation", r"quimb/evo\.py$", r"^(\s+)\(0, 1, 0, 1\): schrodinger_eq_ket_timedep,\s*$", r"\1(0, 1, 0, 1): schrodinger_eq_dop_timedep,"),
        ("timedep key gets static equation", r"quimb/evo\.py$", r"^(\s+)\(1, 0, 0, 1\): schrodinger_eq_dop_timedep,\s*$", r"\1(1, 0, 0, 1): schrodinger_eq_dop,"),
        ("missing combination", r"quimb/evo\.py$", r"^(\s+)\(1, 1, 0, 1\): schrodinger_eq_dop_timedep,\s*$", None),
        ("rhs sign", r"quimb/evo\.py$", r"^(\s+)return -1\.0j \* dot\(ham\(t\), y\)\s*$", r"\1return 1.0j * dot(ham(t), y)"),
        ("hamiltonian at fixed time", r"quimb/evo\.py$", r"^(\s+)hrho = dot\(ham\(t\), y\.reshape\(d, d\)\)\s*$", r"\1hrho = dot(ham(0), y.reshape(d, d))"),
        ("anticommutator", r"quimb/evo\.py$", r"^(\s+)return -1\.0j \* \(hrho - hrho\.T\.conj\(\)\)\.reshape\(-1\)\s*$", r"\1return -1.0j * (hrho + hrho.T.conj()).reshape(-1)"),
        ("solved from current time", r"quimb/evo\.py$", r"^(\s+)lt = explt\(evals, t - self\.t0\)\s*$", r"\1lt = explt(evals, t - self.t)"),
        ("kind flag swapped", r"quimb/evo\.py$", r"^(\s+)evo_eq = _calc_evo_eq\(self\._isdop, issparse\(H0\), False, self\._timedep\)\s*$", r"\1evo_eq = _calc_evo_eq(issparse(H0), self._isdop, False, self._timedep)"),
        ("accessors disagree", r"quimb/evo\.py$", r"^(\s+)return self\._stepper\.t if self\._method == \"integrate\" else self\._t\s*$", r'\1return self._stepper.t if hasattr(self, "_stepper") else self._t'),
    ],
    "C19": [
        ("wrong kernel", r"quimb/operator/configcore\.py$", r"^(\s+)return rank_to_flatconfig_u1_pascal\(r, n, k, pt\)\s*$", r"\1return rank_to_flatconfig_z2(r, n, k)"),
        ("sector order", r"quimb/operator/configcore\.py$", r"^(\s+)matvec_u1\(x, out, n, k, coupling_map, world_size, world_rank\)\s*$", r"\1matvec_u1(x, out, k, n, coupling_map, world_size, world_rank)"),
        ("drop code", r"quimb/operator/configcore\.py$", r"^(\s+)elif symmetry == 3:\s*$", r"\1elif symmetry == 4:"),
        ("scalar inverted", r"quimb/operator/builder\.py$", r"^(\s+)coeff \*= combo_coeff / ref_coeff\s*$", r"\1coeff *= ref_coeff / combo_coeff"),
        ("scalar dropped", r"quimb/operator/builder\.py$", r"^(\s+)coeff \*= combo_coeff / ref_coeff\s*$", r"\1coeff *= combo_coeff"),
        ("jw string from partner", r"quimb/operator/builder\.py$", r"^(\s+)for r in range\(reg\):\s*$", r"\1for r in range(1, reg):"),
        ("write without reset", r"quimb/operator/builder\.py$", r"^(\s+)self\._reset_caches\(\)\s*$", None, r"^(jordan_wigner_transform|pauli_decompose|add_term)$"),
        ("reset only when set", r"quimb/operator/builder\.py$", r"^(\s+)self\._terms_raw\[ops\] = coeff\s*$", r"\1self._terms_raw[ops] = coeff\n\1if len(self._terms_raw) == 1:\n\1    return"),
        ("sector from dict order", r"quimb/operator/hilbertspace\.py$", r"^(\s+)\(len\(species_regs\[label\]\), sector\[label\]\) for label in species_regs\s*$", r"\1(len(species_regs[label]), sector[label]) for label in sector"),
    ],
}


def _candidates(prog, pid):
    out = []
    for mut in MUTATORS.get(pid, []):
        name, fre, lre, repl = mut[:4]
        fn_re = re.compile(mut[4]) if len(mut) > 4 else None
        fre_c, lre_c = re.compile(fre), re.compile(lre)
        for rel, m in sorted(prog.by_relpath.items()):
            if not fre_c.search(rel) or "_qsa_controls" in rel:
                continue
            lines = m.src.split("\n")
            for i, line in enumerate(lines):
                mm = lre_c.match(line)
                if mm:
                    if fn_re is not None:
                        encl = None
                        for j in range(i, -1, -1):
                            dm = re.match(r"\s*def (\w+)\(", lines[j])
                            if dm and len(lines[j]) - len(lines[j].lstrip()) < len(line) - len(line.lstrip()):
                                encl = dm.group(1)
                                break
                        if encl is None or not fn_re.search(encl):
                            continue
                    out.append((name, rel, i, repl))
    return out


def _mutate(src, i, lre, repl):
    lines = src.split("\n")
    if repl is None:
        indent = re.match(r"\s*", lines[i]).group(0)
        # an argument line is removed; a statement is replaced by `pass` (keeps the block non-empty)
        lines[i] = "" if lines[i].rstrip().endswith(",") else indent + "pass"
    elif callable(repl):
        lines[i] = repl(re.match(lre, lines[i]))
    else:
        lines[i] = re.sub(lre, repl, lines[i])
    return "\n".join(lines)


def _run_one(args):
    pid, rel, newsrc, tier = args
    import ast as _ast
    try:
        _ast.parse(newsrc)
    except SyntaxError:
        return None
    from .framework import Ctx
    from .registry import REGISTRY
    with warnings.catch_warnings():
        warnings.simplefilter("ignore")
        try:
            ctx = Ctx(tier="quick", overlay={rel: newsrc})
            keys, errs = set(), []
            for rule in REGISTRY[pid]["rules"]:
                try:
                    rs = rule(ctx)
                except Exception as e:  # as in run_property: a rule that lost its anchor does not hide the others
                    errs.append("ANALYSIS-ERROR:" + type(e).__name__ + ":" + str(e)[:80])
                    continue
                rs = rs if isinstance(rs, (list, tuple)) else [rs]
                for r in rs:
                    keys |= {f.key for f in r.findings}
            return sorted(keys) + errs
        except Exception as e:  # an analysis error on a mutant counts as detection (fail-closed)
            return ["ANALYSIS-ERROR:" + type(e).__name__ + ":" + str(e)[:80]]


def make_selftest(pid, sample=30):
    def selftest(ctx, seed):
        from .registry import REGISTRY
        base = set()
        for rule in REGISTRY[pid]["rules"]:
            rs = rule(ctx)
            rs = rs if isinstance(rs, (list, tuple)) else [rs]
            for r in rs:
                base |= {f.key for f in r.findings}
        cands = _candidates(ctx.prog, pid)
        rng = random.Random(seed)
        # stratify: at least one instance per mutator, then fill up randomly
        by_name = {}
        for c in cands:
            by_name.setdefault(c[0], []).append(c)
        chosen = []
        for name in sorted(by_name):
            chosen.append(rng.choice(by_name[name]))
        rest = [c for c in cands if c not in chosen]
        rng.shuffle(rest)
        chosen += rest[: max(0, sample - len(chosen))]
        lres = {m_[0]: m_[2] for m_ in MUTATORS.get(pid, [])}
        jobs = []
        for name, rel, i, repl in chosen:
            src = ctx.prog.by_relpath[rel].src
            jobs.append((pid, rel, _mutate(src, i, lres[name], repl), "quick"))
        results = []
        with ProcessPoolExecutor(max_workers=min(12, max(1, len(jobs)))) as ex:
            results = list(ex.map(_run_one, jobs))
        tried = killed = 0
        survivors, kills = [], []
        for (name, rel, i, repl), res in zip(chosen, results):
            if res is None:
                continue
            tried += 1
            new = [k for k in res if k not in base]
            if new:
                killed += 1
                kills.append({"mutator": name, "site": f"{rel}:{i + 1}", "reported": new[0]})
            else:
                survivors.append({"mutator": name, "site": f"{rel}:{i + 1}"})
        return {
            "what": "in-memory source mutants (one broken instance each) re-analysed; killed = a finding not reported on the unmutated tree",
            "mutators_defined": len(MUTATORS.get(pid, [])),
            "candidate_sites": len(cands),
            "mutants_tried": tried,
            "killed": killed,
            "kills": kills[:12],
            "survivors": survivors,
        }

    return selftest
