#!/venv/bin/python
"""Compare a junit xml produced by the baseline command with BASELINE.json's
stable_pass list:  prints tests that are in stable_pass but did not pass."""
import json, sys, xml.etree.ElementTree as ET
base = json.load(open("/root/.vp/BASELINE.json"))
stable = set(base["stable_pass"])
passed, seen = set(), set()
for tc in ET.parse(sys.argv[1]).getroot().iter("testcase"):
    name = f"{tc.get('classname')}::{tc.get('name')}"
    seen.add(name)
    if not any(ch.tag in ("failure", "error", "skipped") for ch in tc):
        passed.add(name)
missing = sorted(stable - passed)
print(f"stable_pass={len(stable)} passed_now={len(passed)} seen={len(seen)} regressions={len(missing)}")
for m in missing[:60]:
    print("  REGRESSION", m, "(not run)" if m not in seen else "")
sys.exit(1 if missing else 0)
