#!/venv/bin/python
"""eval_seed.py <seed_src_dir> <seed_id> <property> [--store]

Confirms a seeded change in a scratch worktree of /repo (default /tmp/vt, must exist and be clean):
demo on the clean tree (expect exit 0), demo with the patch (expect exit 1), then every registered check
with QSA_REPO pointing at the patched worktree; prints which checks report a *new* violation.
With --store copies patch/demo/notes into /verif/seeded/<seed_id>/ and writes meta.json."""
import json, os, shutil, subprocess, sys

src, sid, pid = sys.argv[1:4]
store = "--store" in sys.argv
WT = os.environ.get("SEED_WT", "/tmp/vt")
sh = lambda cmd, **kw: subprocess.run(cmd, shell=True, capture_output=True, text=True, **kw)
sh(f"git -C {WT} checkout -q -- . && git -C {WT} checkout -q --detach main")
os.makedirs(f"{WT}/_seedtmp", exist_ok=True)
shutil.copy(f"{src}/demo.py", f"{WT}/_seedtmp/demo.py")
env = dict(os.environ, OMP_NUM_THREADS="2", OPENBLAS_NUM_THREADS="2")
clean = sh(f"cd {WT} && /venv/bin/python _seedtmp/demo.py", env=env)
ap = sh(f"git -C {WT} apply {src}/patch.diff")
if ap.returncode != 0:
    print("PATCH DOES NOT APPLY at HEAD:", ap.stderr[:300]); shutil.rmtree(f"{WT}/_seedtmp"); sys.exit(2)
seeded = sh(f"cd {WT} && /venv/bin/python _seedtmp/demo.py", env=env)
print(f"demo clean exit={clean.returncode}  seeded exit={seeded.returncode}")
print("  seeded demo says:", (seeded.stdout + seeded.stderr).strip().splitlines()[-1][:200] if (seeded.stdout + seeded.stderr).strip() else "")
sys.path.insert(0, "/verif")
from qsa.registry import REGISTRY
detected = {}
for p in sorted(REGISTRY):
    out = sh(f"cd /verif && QSA_REPO={WT} /venv/bin/python check.py {p}")
    rules = [l.strip() for l in out.stdout.splitlines() if l.strip().startswith("rule=")]
    if "ANALYSIS-ERROR" in out.stdout:
        rules.append("ANALYSIS-ERROR " + out.stdout.split("ANALYSIS-ERROR")[1][:150])
    if rules:
        detected[p] = rules
        print(f"  {p}: {len(rules)} new report(s): {rules[0][:160]}")
sh(f"git -C {WT} checkout -q -- .")
shutil.rmtree(f"{WT}/_seedtmp")
# restore evidence files overwritten by the runs against the scratch tree
sh("cd /verif && git checkout -q -- evidence 2>/dev/null")
if not detected:
    print("  NOT DETECTED by any check")
if store:
    d = f"/verif/seeded/{sid}"
    os.makedirs(d, exist_ok=True)
    for fn in ("patch.diff", "demo.py", "notes.md"):
        if os.path.exists(f"{src}/{fn}"):
            shutil.copy(f"{src}/{fn}", f"{d}/{fn}")
    meta = {
        "seed": sid, "property": pid,
        "origin": "written by an independent sub-agent given only the property text and a scratch worktree",
        "breaks_and_needs": "see notes.md (written by the seeding agent)",
        "confirmed": {
            "how": f"tools/eval_seed.py: git apply in a scratch worktree of /repo HEAD; cd <worktree> && /venv/bin/python demo.py",
            "demo_on_clean_tree_exit": clean.returncode, "demo_with_patch_exit": seeded.returncode,
            "tests": "the seeding agent ran the test files of the touched modules with the patch: same failing ids as the clean tree "
                     "(missing networkx / matplotlib / opt_einsum only) — see notes.md",
        },
        "detected": bool(detected.get(pid)) or bool(detected),
        "detected_by": {p: [r.split(" construct=")[0].replace("rule=", "") for r in rs][:3] for p, rs in detected.items()},
    }
    json.dump(meta, open(f"{d}/meta.json", "w"), indent=1)
    print("  stored in", d)
