#!/venv/bin/python
"""Regenerate MANIFEST.json from qsa.registry (claimed) + NOT_APPLICABLE."""
import json, os, sys
sys.path.insert(0, os.path.dirname(os.path.dirname(os.path.abspath(__file__))))
from qsa.registry import REGISTRY, NOT_APPLICABLE, LEVEL_TEXT, TECHNIQUE

props = [json.loads(l) for l in open("/verif/properties.jsonl")]
ids = [p["id"] for p in props]
checks = []
for pid in ids:
    if pid not in REGISTRY:
        continue
    spec = REGISTRY[pid]
    checks.append({
        "property_id": pid,
        "quick_cmd": f"/venv/bin/python check.py {pid} --tier quick",
        "thorough_cmd": f"/venv/bin/python check.py {pid} --tier thorough",
        "evidence_file": f"/verif/evidence/{pid}.json",
        "replay_cmd_template": f"/venv/bin/python check.py {pid} --replay {{path}}",
        "engine": "qsa",
        "level_claimed": {
            "category": "other",
            "text": LEVEL_TEXT.get(pid, spec["explanation"]),
            "design_ref": f"DESIGN.md §3 {pid}",
        },
        "level_note": "trusted base: CPython ast parser; the frozen rule/owner/exemption tables in /verif/qsa/rules "
                      "(each entry confirmed by reading); un-annotated receivers resolved by method name over the "
                      "Tensor/TensorNetwork hierarchies; numerical behaviour of the checked code is NOT decided",
        "technique": TECHNIQUE.get(pid, "static analysis: repository-specific AST / call-graph / effect rules"),
    })
na = [{"property_id": pid, "reason": NOT_APPLICABLE[pid]} for pid in ids if pid not in REGISTRY]
m = {
    "version": 1,
    "setup_cmd": "/venv/bin/python -c \"import ast,sys; [ast.parse(open(f).read()) for f in __import__('glob').glob('/verif/qsa/**/*.py', recursive=True)]\"",
    "hooks": {
        "guard": "QUIMB_VERIF",
        "enable": "no hooks or instrumentation: every check parses /repo/quimb/**/*.py from the working tree and never imports or runs it",
        "baseline_off_cmd": "cd /repo && /venv/bin/python -m pytest -ra -q -p no:cacheprovider --timeout=900 --continue-on-collection-errors",
        "source_commits": [],
        "add_only": True,
    },
    "engines": [{
        "name": "qsa",
        "path": "/verif/qsa",
        "serves_properties": [c["property_id"] for c in checks],
        "kind_free_text": "stdlib-ast static analysis: program model (imports, C3 MRO, partialmethod aliases), "
                          "interprocedural alias/effect analysis under mode-flag contexts, option-flow, "
                          "registry evaluation, sibling comparison; repository-specific rules per property",
    }],
    "checks": checks,
    "notes": "exit 2 + ANALYSIS-ERROR = the analysis could not be carried out (vanished anchor, floor, control); "
             "known findings: /verif/known_findings.json",
    "not_applicable": na,
}
json.dump(m, open("/verif/MANIFEST.json", "w"), indent=1)
print(len(checks), "checks;", len(na), "not applicable")
