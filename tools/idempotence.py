#!/venv/bin/python
"""Runs every property's rules twice on one shared analysis context and compares the findings: a rule that mutates the
parsed program (or keeps state between runs) would make the second run differ."""
import os, sys
sys.path.insert(0, os.path.dirname(os.path.dirname(os.path.abspath(__file__))))
from qsa.framework import Ctx
from qsa.registry import REGISTRY

ctx = Ctx(tier="quick")
bad = 0
for pid in sorted(REGISTRY):
    runs = []
    for k in range(2):
        keys = set()
        for rule in REGISTRY[pid]["rules"]:
            rs = rule(ctx)
            rs = rs if isinstance(rs, (list, tuple)) else [rs]
            for r in rs:
                keys |= {f.key for f in r.findings}
        runs.append(keys)
    same = runs[0] == runs[1]
    bad += not same
    print(pid, "idempotent" if same else f"DIFFERS: {sorted(runs[0] ^ runs[1])[:4]}")
sys.exit(1 if bad else 0)
