#!/venv/bin/python
"""rename_fuzz.py [--keep DIR] [ids...]

Robustness test of the checkers against a *behaviour-preserving* edit of the whole repository: every local
variable of every function (not parameters, globals, nonlocals, imports, names shared with nested scopes that
rebind them) is renamed `<name>_rn`, and the source is re-emitted by ast.unparse (comments and layout are lost,
all line numbers move).  The renamed tree is written to a scratch directory outside /repo and /verif and every
registered check is run against it with QSA_REPO / QSA_OUT.  A rule that recognises its anchor by the *name of a
local* or by source layout shows up here as a new VIOLATION or an ANALYSIS-ERROR.

Known findings whose key quotes call-site text can legitimately re-appear under a different key; they are matched on
(rule, construct) only.  Exit 0 always (this measures the checkers)."""
import ast, json, os, shutil, subprocess, sys, tempfile
from concurrent.futures import ThreadPoolExecutor

VERIF = os.path.dirname(os.path.dirname(os.path.abspath(__file__)))
REPO = os.environ.get("QSA_REPO", "/repo")
sys.path.insert(0, VERIF)
from qsa.registry import REGISTRY

SCOPES = (ast.FunctionDef, ast.AsyncFunctionDef, ast.Lambda, ast.ListComp, ast.SetComp, ast.DictComp, ast.GeneratorExp, ast.ClassDef)


def own_nodes(fn):
    """nodes of fn's own scope (not descending into nested functions / lambdas / classes; comprehensions are kept:
    their iteration variables are their own, but they read the enclosing locals)."""
    stack = list(ast.iter_child_nodes(fn))
    while stack:
        n = stack.pop()
        yield n
        if isinstance(n, (ast.FunctionDef, ast.AsyncFunctionDef, ast.Lambda, ast.ClassDef)):
            continue
        stack.extend(ast.iter_child_nodes(n))


def rename_function(fn):
    params = {a.arg for a in fn.args.args + fn.args.posonlyargs + fn.args.kwonlyargs}
    if fn.args.vararg:
        params.add(fn.args.vararg.arg)
    if fn.args.kwarg:
        params.add(fn.args.kwarg.arg)
    excluded = set(params)
    stores = set()
    comp_targets = set()
    for n in own_nodes(fn):
        if isinstance(n, (ast.Global, ast.Nonlocal)):
            excluded |= set(n.names)
        elif isinstance(n, (ast.Import, ast.ImportFrom)):
            excluded |= {(a.asname or a.name).split(".")[0] for a in n.names}
        elif isinstance(n, ast.ExceptHandler) and n.name:
            excluded.add(n.name)
        elif isinstance(n, (ast.FunctionDef, ast.AsyncFunctionDef, ast.ClassDef)):
            excluded.add(n.name)
        elif isinstance(n, ast.comprehension):
            comp_targets |= {y.id for y in ast.walk(n.target) if isinstance(y, ast.Name)}
        elif isinstance(n, ast.Name) and isinstance(n.ctx, (ast.Store, ast.Del)):
            stores.add(n.id)
        elif isinstance(n, ast.MatchAs) and n.name:
            excluded.add(n.name)
    # anything a nested function / lambda / class touches is left alone (closures, default arguments ...)
    for n in ast.walk(fn):
        if n is not fn and isinstance(n, (ast.FunctionDef, ast.AsyncFunctionDef, ast.Lambda, ast.ClassDef)):
            for y in ast.walk(n):
                if isinstance(y, ast.Name):
                    excluded.add(y.id)
                if isinstance(y, ast.arg):
                    excluded.add(y.arg)
    # locals() / vars() / eval: leave the whole function alone
    for n in own_nodes(fn):
        if isinstance(n, ast.Call) and isinstance(n.func, ast.Name) and n.func.id in ("locals", "vars", "eval", "exec"):
            return 0
    todo = (stores - excluded - comp_targets) | (comp_targets - excluded - stores)
    todo = {v for v in todo if not v.startswith("__")}
    if not todo:
        return 0
    for n in own_nodes(fn):
        if isinstance(n, ast.Name) and n.id in todo:
            n.id = n.id + "_rn"
    return len(todo)


def transform(src):
    tree = ast.parse(src)
    count = 0
    for n in ast.walk(tree):
        if isinstance(n, (ast.FunctionDef, ast.AsyncFunctionDef)):
            count += rename_function(n)
    return ast.unparse(tree) + "\n", count


def main():
    args = [a for a in sys.argv[1:] if not a.startswith("--")]
    keep = None
    if "--keep" in sys.argv:
        keep = sys.argv[sys.argv.index("--keep") + 1]
        args = [a for a in args if a != keep]
    pids = args or sorted(REGISTRY)
    wt = keep or tempfile.mkdtemp(prefix="qsa_rename_")
    os.makedirs(wt, exist_ok=True)
    total = files = 0
    for root, _, fns in os.walk(f"{REPO}/quimb"):
        for fn in fns:
            if not fn.endswith(".py"):
                continue
            src = open(os.path.join(root, fn)).read()
            rel = os.path.relpath(os.path.join(root, fn), REPO)
            try:
                new, c = transform(src)
                compile(new, rel, "exec")
            except Exception as e:  # leave the file as it is
                print(f"  (left unchanged: {rel}: {type(e).__name__}: {e})")
                new, c = src, 0
            os.makedirs(os.path.dirname(os.path.join(wt, rel)), exist_ok=True)
            open(os.path.join(wt, rel), "w").write(new)
            total += c
            files += 1
    print(f"renamed {total} locals in {files} files -> {wt}")
    known = json.load(open(f"{VERIF}/known_findings.json"))
    known_rc = {(k["property"],) + tuple(k["key"].split("|")[:2]) for k in known if k.get("status") == "known"}

    def run(p):
        env = dict(os.environ, QSA_REPO=wt, QSA_OUT=f"{wt}/_out")
        out = subprocess.run(["/venv/bin/python", f"{VERIF}/check.py", p], capture_output=True, text=True, env=env, cwd=VERIF)
        probs = []
        lines = out.stdout.splitlines()
        for i, l in enumerate(lines):
            if l.strip().startswith("rule="):
                parts = dict(x.split("=", 1) for x in l.strip().split(" ") if "=" in x)
                if (p, parts.get("rule"), parts.get("construct")) in known_rc:
                    continue
                probs.append(l.strip()[:200] + " :: " + (lines[i + 1].strip()[:160] if i + 1 < len(lines) else ""))
            if "ANALYSIS-ERROR" in l or "ANALYSIS-NOTE" in l:
                probs.append(l.strip()[:300])
        # silent loss of coverage: per-rule obligation counts against the unrenamed tree
        try:
            env0 = dict(os.environ, QSA_REPO=REPO, QSA_OUT=f"{wt}/_out0")
            subprocess.run(["/venv/bin/python", f"{VERIF}/check.py", p], capture_output=True, text=True, env=env0, cwd=VERIF)
            a = {x["rule"]: x["obligations"] for x in json.load(open(f"{wt}/_out0/evidence/{p}.json"))["coverage"]["rules"]}
            b = {x["rule"]: x["obligations"] for x in json.load(open(f"{wt}/_out/evidence/{p}.json"))["coverage"]["rules"]}
            for k in a:
                if a[k] != b.get(k):
                    probs.append(f"COVERAGE rule={k}: {a[k]} obligations on the original tree, {b.get(k)} after renaming")
        except Exception as e:
            probs.append(f"COVERAGE not compared: {type(e).__name__}")
        if out.returncode != 0 and not probs:
            probs.append(f"exit code {out.returncode}: a known finding is keyed by something a rename changes (it is reported as a violation on the renamed tree)")
        return p, out.returncode, probs

    with ThreadPoolExecutor(max_workers=8) as ex:
        res = list(ex.map(run, pids))
    bad = 0
    for p, rc, probs in res:
        print(f"{p}: rc={rc} {'clean' if not probs else str(len(probs)) + ' problem(s)'}")
        for x in probs:
            print("    " + x)
            bad += 1
    print(f"{bad} problem(s) after a behaviour-preserving rename of all locals")
    if not keep:
        shutil.rmtree(wt, ignore_errors=True)


if __name__ == "__main__":
    main()
