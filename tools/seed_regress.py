#!/venv/bin/python
"""seed_regress.py [seed_id ...] [--update] [--all-checks]

Static regression of the checkers against the seeded changes kept in /verif/seeded/<id>/patch.diff.
For every seed: copy /repo's quimb/*.py into a scratch directory outside /repo and /verif, apply the
patch there, run the seed's property check (all checks with --all-checks) with QSA_REPO/QSA_OUT pointing
at the scratch copy, and list the rules that report a new violation.  Nothing in /repo or
/verif/evidence is touched.  --update rewrites `detected` / `detected_by` in each meta.json.
Exit 0 always (this measures the checkers, not the repository)."""
import json, os, shutil, subprocess, sys, tempfile
from concurrent.futures import ThreadPoolExecutor

VERIF = os.path.dirname(os.path.dirname(os.path.abspath(__file__)))
REPO = os.environ.get("QSA_REPO", "/repo")
sys.path.insert(0, VERIF)
from qsa.registry import REGISTRY

args = [a for a in sys.argv[1:] if not a.startswith("--")]
update = "--update" in sys.argv
allchecks = "--all-checks" in sys.argv
seeds = args or sorted(d for d in os.listdir(f"{VERIF}/seeded") if os.path.exists(f"{VERIF}/seeded/{d}/patch.diff"))


def run(sid):
    d = f"{VERIF}/seeded/{sid}"
    meta = json.load(open(f"{d}/meta.json")) if os.path.exists(f"{d}/meta.json") else {"seed": sid, "property": sid.split("-")[0]}
    pid = meta.get("property", sid.split("-")[0])
    wt = tempfile.mkdtemp(prefix=f"qsa_seed_{sid}_")
    try:
        subprocess.run(["rsync", "-a", "--include=*/", "--include=*.py", "--exclude=*", f"{REPO}/quimb", wt], check=True)
        ap = subprocess.run(["git", "apply", "--unsafe-paths", f"--directory={wt}", f"{d}/patch.diff"], cwd=wt, capture_output=True, text=True)
        if ap.returncode != 0:
            ap = subprocess.run(["patch", "-p1", "-s", "-i", f"{d}/patch.diff"], cwd=wt, capture_output=True, text=True)
            if ap.returncode != 0:
                return sid, pid, None, "patch does not apply: " + (ap.stderr or ap.stdout)[:200]
        detected = {}
        for p in (sorted(REGISTRY) if allchecks else [pid]):
            if p not in REGISTRY:
                continue
            env = dict(os.environ, QSA_REPO=wt, QSA_OUT=f"{wt}/_out")
            out = subprocess.run(["/venv/bin/python", f"{VERIF}/check.py", p], capture_output=True, text=True, env=env, cwd=VERIF)
            rules = [l.strip() for l in out.stdout.splitlines() if l.strip().startswith("rule=")]
            if "ANALYSIS-ERROR" in out.stdout:
                rules.append("ANALYSIS-ERROR " + out.stdout.split("ANALYSIS-ERROR")[1][:150].strip())
            if rules:
                detected[p] = rules
        return sid, pid, detected, None
    finally:
        shutil.rmtree(wt, ignore_errors=True)


with ThreadPoolExecutor(max_workers=12) as ex:
    results = list(ex.map(run, seeds))
caught = 0
for sid, pid, detected, err in results:
    if err:
        print(f"{sid}: {err}")
        continue
    own = detected.get(pid, [])
    if own or detected:
        caught += 1
    first = (own or next(iter(detected.values()), [""]))[0]
    print(f"{sid}: {'CAUGHT' if detected else 'missed'} {first[:150]}")
    if update:
        mp = f"{VERIF}/seeded/{sid}/meta.json"
        meta = json.load(open(mp))
        meta["detected"] = bool(detected)
        meta["detected_by"] = {p: sorted({r.split(" construct=")[0].replace("rule=", "") for r in rs})[:4] for p, rs in detected.items()}
        json.dump(meta, open(mp, "w"), indent=1)
print(f"{caught}/{len(results)} seeded changes reported")
